// Sidecar for unit `cidr_match`: the body of `function!(CidrMatch(ip: String, cidr: String) => Boolean, { .. })`
// (src/rules/script_ext.rs), extracted as the block the macro pastes into `call` (T17).
// C02: "cidr_match agrees with standard CIDR containment for every IPv4/IPv6 address and prefix"; text that does not
// parse matches nothing; never an error or a panic for string arguments.

//@ contract CidrMatch_call_body
    ensures
        (ip is String) && (cidr is String) ==> ret.is_ok() && ret->Ok_0 == Value::Boolean(
            match (ip_of(string_bytes(ip->String_0)), cidr_of(string_bytes(cidr->String_0))) {
                (Some(a), Some(c)) => cidr_contains(c, a),
                _ => false,
            }),
//@ end
