// sidecar milu_int (wip)
