// Sidecar for unit `milu_int` -- C08 (rule-language type soundness), integer builtins; C18 for the `signature` bodies.
// Bodies come from rustc's expansion of `function!`/`int_op!` (T11).  Postconditions are written from the property text:
//   "evaluating ... never crashes the process and never fails with a type error: it yields a value of type T - with
//    arithmetic ... behaving as documented - or one of the inherently dynamic errors (division by zero, ..., integer
//    overflow)".
// For every builtin B:
//   B::signature  requires nothing (any argument list a posted rule can contain): no panic (C18), and
//                 Ok(t) ==> t is the declared result type and enough arguments are present.
//   B::call       requires nothing: no panic for ALL i64 operands; Ok(v) ==> v is an Integer; when both operands
//                 evaluate to integers the result is exactly the mathematical / documented operator if it is
//                 representable (and, for / %, defined), and an error otherwise -- never a type error.

// (spec side of the cast_value! conversions: see shims/milu.rs; the impl bodies are extracted and checked here)

// ---------------------------------------------------------------- vocabulary
spec fn in_i64(x: int) -> bool { i64::MIN <= x <= i64::MAX }

/// "the result is the mathematical value when representable, an (overflow) error otherwise"
spec fn int_result(ret: Result<Value, Error>, math: int) -> bool {
    if in_i64(math) { ret == Ok::<Value, Error>(Value::Integer(math as i64)) } else { ret is Err }
}

/// Rust's truncating `/` on i64 stays in range except for MIN / -1 (vstd's `rust_div` is the model of the operator)
proof fn lemma_rust_div_range(a: i64, b: i64)
    requires b != 0,
    ensures
        !(a == i64::MIN && b == -1) ==> i64::MIN <= rust_div(a as int, b as int) <= i64::MAX,
        (a == i64::MIN && b == -1) ==> rust_div(a as int, b as int) > i64::MAX,
{
    let x = a as int; let y = b as int;
    if x > 0 && y > 0 { assert(0 <= x / y <= x) by (nonlinear_arith) requires x > 0, y > 0; }
    else if x > 0 && y < 0 { assert(-x <= x / y <= 0) by (nonlinear_arith) requires x > 0, y < 0; }
    else if x < 0 && y > 0 { let m = -x; assert(0 <= m / y <= m) by (nonlinear_arith) requires m > 0, y > 0; }
    else if x < 0 && y < -1 { let m = -x; assert(-m < m / y <= 0) by (nonlinear_arith) requires m > 0, y < -1; }
    else if x < 0 && y == -1 { let m = -x; assert(m / -1 == -m) by (nonlinear_arith); }
}

/// the i-th argument evaluates to the integer n
spec fn arg_int(args: Seq<Value>, i: int, ctx: ScriptContextRef) -> Option<i64> {
    if 0 <= i < args.len() {
        match real_value_spec(args[i], ctx) { Ok(Value::Integer(n)) => Some(n), _ => None }
    } else { None }
}
/// the i-th argument is missing or its evaluation fails
spec fn arg_fails(args: Seq<Value>, i: int, ctx: ScriptContextRef) -> bool {
    i >= args.len() || real_value_spec(args[i], ctx) is Err
}

// ---------------------------------------------------------------- Plus

//@ contract Plus::signature
        ensures
            ret is Ok ==> (ret->Ok_0 == Type::Integer && args@.len() >= 2),
            // accepted ==> every operand has static type Integer (or Any)
            ret is Ok ==> (sig_arg(args@, 0, ctx, Type::Integer) && sig_arg(args@, 1, ctx, Type::Integer)),
//@ end
//@ loop Plus::signature 0
                    invariant targs_ok(targs@, args@, vf_it.index@ as int, ctx),
//@ end

//@ contract Plus::call
        ensures
            ret is Ok ==> has_type(ret->Ok_0, Type::Integer),
            (arg_fails(args@, 0, ctx) || arg_fails(args@, 1, ctx)) ==> ret is Err,
            (arg_int(args@, 0, ctx) is Some && arg_int(args@, 1, ctx) is Some) ==> ({
                let a = arg_int(args@, 0, ctx)->Some_0;
                let b = arg_int(args@, 1, ctx)->Some_0;
                int_result(ret, a + b)
            }),
            // operands of static type Integer: overflow / division by zero / shift range are the only errors of its own -- never a failed cast
            (arg_is(args@, 0, ctx, Type::Integer) && arg_is(args@, 1, ctx, Type::Integer) && no_type_err(arg_value(args@, 0, ctx)) && no_type_err(arg_value(args@, 1, ctx))) ==> no_type_err(ret),
//@ end

// ---------------------------------------------------------------- Minus

//@ contract Minus::signature
        ensures
            ret is Ok ==> (ret->Ok_0 == Type::Integer && args@.len() >= 2),
            // accepted ==> every operand has static type Integer (or Any)
            ret is Ok ==> (sig_arg(args@, 0, ctx, Type::Integer) && sig_arg(args@, 1, ctx, Type::Integer)),
//@ end
//@ loop Minus::signature 0
                    invariant targs_ok(targs@, args@, vf_it.index@ as int, ctx),
//@ end

//@ contract Minus::call
        ensures
            ret is Ok ==> has_type(ret->Ok_0, Type::Integer),
            (arg_fails(args@, 0, ctx) || arg_fails(args@, 1, ctx)) ==> ret is Err,
            (arg_int(args@, 0, ctx) is Some && arg_int(args@, 1, ctx) is Some) ==> ({
                let a = arg_int(args@, 0, ctx)->Some_0;
                let b = arg_int(args@, 1, ctx)->Some_0;
                int_result(ret, a - b)
            }),
            // operands of static type Integer: overflow / division by zero / shift range are the only errors of its own -- never a failed cast
            (arg_is(args@, 0, ctx, Type::Integer) && arg_is(args@, 1, ctx, Type::Integer) && no_type_err(arg_value(args@, 0, ctx)) && no_type_err(arg_value(args@, 1, ctx))) ==> no_type_err(ret),
//@ end

// ---------------------------------------------------------------- Multiply

//@ contract Multiply::signature
        ensures
            ret is Ok ==> (ret->Ok_0 == Type::Integer && args@.len() >= 2),
            // accepted ==> every operand has static type Integer (or Any)
            ret is Ok ==> (sig_arg(args@, 0, ctx, Type::Integer) && sig_arg(args@, 1, ctx, Type::Integer)),
//@ end
//@ loop Multiply::signature 0
                    invariant targs_ok(targs@, args@, vf_it.index@ as int, ctx),
//@ end

//@ contract Multiply::call
        ensures
            ret is Ok ==> has_type(ret->Ok_0, Type::Integer),
            (arg_fails(args@, 0, ctx) || arg_fails(args@, 1, ctx)) ==> ret is Err,
            (arg_int(args@, 0, ctx) is Some && arg_int(args@, 1, ctx) is Some) ==> ({
                let a = arg_int(args@, 0, ctx)->Some_0;
                let b = arg_int(args@, 1, ctx)->Some_0;
                int_result(ret, a * b)
            }),
            // operands of static type Integer: overflow / division by zero / shift range are the only errors of its own -- never a failed cast
            (arg_is(args@, 0, ctx, Type::Integer) && arg_is(args@, 1, ctx, Type::Integer) && no_type_err(arg_value(args@, 0, ctx)) && no_type_err(arg_value(args@, 1, ctx))) ==> no_type_err(ret),
//@ end

// ---------------------------------------------------------------- Divide

//@ contract Divide::signature
        ensures
            ret is Ok ==> (ret->Ok_0 == Type::Integer && args@.len() >= 2),
            // accepted ==> every operand has static type Integer (or Any)
            ret is Ok ==> (sig_arg(args@, 0, ctx, Type::Integer) && sig_arg(args@, 1, ctx, Type::Integer)),
//@ end
//@ loop Divide::signature 0
                    invariant targs_ok(targs@, args@, vf_it.index@ as int, ctx),
//@ end

//@ contract Divide::call
        ensures
            ret is Ok ==> has_type(ret->Ok_0, Type::Integer),
            (arg_fails(args@, 0, ctx) || arg_fails(args@, 1, ctx)) ==> ret is Err,
            (arg_int(args@, 0, ctx) is Some && arg_int(args@, 1, ctx) is Some) ==> ({
                let a = arg_int(args@, 0, ctx)->Some_0;
                let b = arg_int(args@, 1, ctx)->Some_0;
                if b == 0 { ret is Err } else { int_result(ret, rust_div(a as int, b as int)) }
            }),
            // operands of static type Integer: overflow / division by zero / shift range are the only errors of its own -- never a failed cast
            (arg_is(args@, 0, ctx, Type::Integer) && arg_is(args@, 1, ctx, Type::Integer) && no_type_err(arg_value(args@, 0, ctx)) && no_type_err(arg_value(args@, 1, ctx))) ==> no_type_err(ret),
//@ end

// ---------------------------------------------------------------- Mod

//@ contract Mod::signature
        ensures
            ret is Ok ==> (ret->Ok_0 == Type::Integer && args@.len() >= 2),
            // accepted ==> every operand has static type Integer (or Any)
            ret is Ok ==> (sig_arg(args@, 0, ctx, Type::Integer) && sig_arg(args@, 1, ctx, Type::Integer)),
//@ end
//@ loop Mod::signature 0
                    invariant targs_ok(targs@, args@, vf_it.index@ as int, ctx),
//@ end

//@ contract Mod::call
        ensures
            ret is Ok ==> has_type(ret->Ok_0, Type::Integer),
            (arg_fails(args@, 0, ctx) || arg_fails(args@, 1, ctx)) ==> ret is Err,
            (arg_int(args@, 0, ctx) is Some && arg_int(args@, 1, ctx) is Some) ==> ({
                let a = arg_int(args@, 0, ctx)->Some_0;
                let b = arg_int(args@, 1, ctx)->Some_0;
                (b == 0 ==> ret is Err) && ((b != 0 && !(a == i64::MIN && b == -1)) ==> ret == Ok::<Value, Error>(Value::Integer(rust_rem(a as int, b as int) as i64)))
            }),
            // operands of static type Integer: overflow / division by zero / shift range are the only errors of its own -- never a failed cast
            (arg_is(args@, 0, ctx, Type::Integer) && arg_is(args@, 1, ctx, Type::Integer) && no_type_err(arg_value(args@, 0, ctx)) && no_type_err(arg_value(args@, 1, ctx))) ==> no_type_err(ret),
//@ end

// ---------------------------------------------------------------- BitAnd

//@ contract BitAnd::signature
        ensures
            ret is Ok ==> (ret->Ok_0 == Type::Integer && args@.len() >= 2),
            // accepted ==> every operand has static type Integer (or Any)
            ret is Ok ==> (sig_arg(args@, 0, ctx, Type::Integer) && sig_arg(args@, 1, ctx, Type::Integer)),
//@ end
//@ loop BitAnd::signature 0
                    invariant targs_ok(targs@, args@, vf_it.index@ as int, ctx),
//@ end

//@ contract BitAnd::call
        ensures
            ret is Ok ==> has_type(ret->Ok_0, Type::Integer),
            (arg_fails(args@, 0, ctx) || arg_fails(args@, 1, ctx)) ==> ret is Err,
            (arg_int(args@, 0, ctx) is Some && arg_int(args@, 1, ctx) is Some) ==> ({
                let a = arg_int(args@, 0, ctx)->Some_0;
                let b = arg_int(args@, 1, ctx)->Some_0;
                ret == Ok::<Value, Error>(Value::Integer(a & b))
            }),
            // operands of static type Integer: overflow / division by zero / shift range are the only errors of its own -- never a failed cast
            (arg_is(args@, 0, ctx, Type::Integer) && arg_is(args@, 1, ctx, Type::Integer) && no_type_err(arg_value(args@, 0, ctx)) && no_type_err(arg_value(args@, 1, ctx))) ==> no_type_err(ret),
//@ end

// ---------------------------------------------------------------- BitOr

//@ contract BitOr::signature
        ensures
            ret is Ok ==> (ret->Ok_0 == Type::Integer && args@.len() >= 2),
            // accepted ==> every operand has static type Integer (or Any)
            ret is Ok ==> (sig_arg(args@, 0, ctx, Type::Integer) && sig_arg(args@, 1, ctx, Type::Integer)),
//@ end
//@ loop BitOr::signature 0
                    invariant targs_ok(targs@, args@, vf_it.index@ as int, ctx),
//@ end

//@ contract BitOr::call
        ensures
            ret is Ok ==> has_type(ret->Ok_0, Type::Integer),
            (arg_fails(args@, 0, ctx) || arg_fails(args@, 1, ctx)) ==> ret is Err,
            (arg_int(args@, 0, ctx) is Some && arg_int(args@, 1, ctx) is Some) ==> ({
                let a = arg_int(args@, 0, ctx)->Some_0;
                let b = arg_int(args@, 1, ctx)->Some_0;
                ret == Ok::<Value, Error>(Value::Integer(a | b))
            }),
            // operands of static type Integer: overflow / division by zero / shift range are the only errors of its own -- never a failed cast
            (arg_is(args@, 0, ctx, Type::Integer) && arg_is(args@, 1, ctx, Type::Integer) && no_type_err(arg_value(args@, 0, ctx)) && no_type_err(arg_value(args@, 1, ctx))) ==> no_type_err(ret),
//@ end

// ---------------------------------------------------------------- BitXor

//@ contract BitXor::signature
        ensures
            ret is Ok ==> (ret->Ok_0 == Type::Integer && args@.len() >= 2),
            // accepted ==> every operand has static type Integer (or Any)
            ret is Ok ==> (sig_arg(args@, 0, ctx, Type::Integer) && sig_arg(args@, 1, ctx, Type::Integer)),
//@ end
//@ loop BitXor::signature 0
                    invariant targs_ok(targs@, args@, vf_it.index@ as int, ctx),
//@ end

//@ contract BitXor::call
        ensures
            ret is Ok ==> has_type(ret->Ok_0, Type::Integer),
            (arg_fails(args@, 0, ctx) || arg_fails(args@, 1, ctx)) ==> ret is Err,
            (arg_int(args@, 0, ctx) is Some && arg_int(args@, 1, ctx) is Some) ==> ({
                let a = arg_int(args@, 0, ctx)->Some_0;
                let b = arg_int(args@, 1, ctx)->Some_0;
                ret == Ok::<Value, Error>(Value::Integer(a ^ b))
            }),
            // operands of static type Integer: overflow / division by zero / shift range are the only errors of its own -- never a failed cast
            (arg_is(args@, 0, ctx, Type::Integer) && arg_is(args@, 1, ctx, Type::Integer) && no_type_err(arg_value(args@, 0, ctx)) && no_type_err(arg_value(args@, 1, ctx))) ==> no_type_err(ret),
//@ end

// ---------------------------------------------------------------- ShiftLeft

//@ contract ShiftLeft::signature
        ensures
            ret is Ok ==> (ret->Ok_0 == Type::Integer && args@.len() >= 2),
            // accepted ==> every operand has static type Integer (or Any)
            ret is Ok ==> (sig_arg(args@, 0, ctx, Type::Integer) && sig_arg(args@, 1, ctx, Type::Integer)),
//@ end
//@ loop ShiftLeft::signature 0
                    invariant targs_ok(targs@, args@, vf_it.index@ as int, ctx),
//@ end

//@ contract ShiftLeft::call
        ensures
            ret is Ok ==> has_type(ret->Ok_0, Type::Integer),
            (arg_fails(args@, 0, ctx) || arg_fails(args@, 1, ctx)) ==> ret is Err,
            (arg_int(args@, 0, ctx) is Some && arg_int(args@, 1, ctx) is Some) ==> ({
                let a = arg_int(args@, 0, ctx)->Some_0;
                let b = arg_int(args@, 1, ctx)->Some_0;
                if 0 <= b < 64 { ret == Ok::<Value, Error>(Value::Integer(a << b)) } else { ret is Err }
            }),
            // operands of static type Integer: overflow / division by zero / shift range are the only errors of its own -- never a failed cast
            (arg_is(args@, 0, ctx, Type::Integer) && arg_is(args@, 1, ctx, Type::Integer) && no_type_err(arg_value(args@, 0, ctx)) && no_type_err(arg_value(args@, 1, ctx))) ==> no_type_err(ret),
//@ end

// ---------------------------------------------------------------- ShiftRight

//@ contract ShiftRight::signature
        ensures
            ret is Ok ==> (ret->Ok_0 == Type::Integer && args@.len() >= 2),
            // accepted ==> every operand has static type Integer (or Any)
            ret is Ok ==> (sig_arg(args@, 0, ctx, Type::Integer) && sig_arg(args@, 1, ctx, Type::Integer)),
//@ end
//@ loop ShiftRight::signature 0
                    invariant targs_ok(targs@, args@, vf_it.index@ as int, ctx),
//@ end

//@ contract ShiftRight::call
        ensures
            ret is Ok ==> has_type(ret->Ok_0, Type::Integer),
            (arg_fails(args@, 0, ctx) || arg_fails(args@, 1, ctx)) ==> ret is Err,
            (arg_int(args@, 0, ctx) is Some && arg_int(args@, 1, ctx) is Some) ==> ({
                let a = arg_int(args@, 0, ctx)->Some_0;
                let b = arg_int(args@, 1, ctx)->Some_0;
                if 0 <= b < 64 { ret == Ok::<Value, Error>(Value::Integer(a >> b)) } else { ret is Err }
            }),
            // operands of static type Integer: overflow / division by zero / shift range are the only errors of its own -- never a failed cast
            (arg_is(args@, 0, ctx, Type::Integer) && arg_is(args@, 1, ctx, Type::Integer) && no_type_err(arg_value(args@, 0, ctx)) && no_type_err(arg_value(args@, 1, ctx))) ==> no_type_err(ret),
//@ end

// ---------------------------------------------------------------- ShiftRightUnsigned

//@ contract ShiftRightUnsigned::signature
        ensures
            ret is Ok ==> (ret->Ok_0 == Type::Integer && args@.len() >= 2),
            // accepted ==> every operand has static type Integer (or Any)
            ret is Ok ==> (sig_arg(args@, 0, ctx, Type::Integer) && sig_arg(args@, 1, ctx, Type::Integer)),
//@ end
//@ loop ShiftRightUnsigned::signature 0
                    invariant targs_ok(targs@, args@, vf_it.index@ as int, ctx),
//@ end

//@ contract ShiftRightUnsigned::call
        ensures
            ret is Ok ==> has_type(ret->Ok_0, Type::Integer),
            (arg_fails(args@, 0, ctx) || arg_fails(args@, 1, ctx)) ==> ret is Err,
            (arg_int(args@, 0, ctx) is Some && arg_int(args@, 1, ctx) is Some) ==> ({
                let a = arg_int(args@, 0, ctx)->Some_0;
                let b = arg_int(args@, 1, ctx)->Some_0;
                if 0 <= b < 64 { ret == Ok::<Value, Error>(Value::Integer(((a as u64) >> (b as u64)) as i64)) } else { ret is Err }
            }),
            // operands of static type Integer: overflow / division by zero / shift range are the only errors of its own -- never a failed cast
            (arg_is(args@, 0, ctx, Type::Integer) && arg_is(args@, 1, ctx, Type::Integer) && no_type_err(arg_value(args@, 0, ctx)) && no_type_err(arg_value(args@, 1, ctx))) ==> no_type_err(ret),
//@ end

//@ hint Divide::call after `let b: i64 = b.try_into()?;`
                    proof { if b != 0 { lemma_rust_div_range(a, b); } }
//@ end

// ---------------------------------------------------------------- Negative

//@ contract Negative::signature
        ensures
            ret is Ok ==> (ret->Ok_0 == Type::Integer && args@.len() >= 1),
            // accepted ==> every operand has static type Integer (or Any)
            ret is Ok ==> (sig_arg(args@, 0, ctx, Type::Integer)),
//@ end
//@ loop Negative::signature 0
                    invariant targs_ok(targs@, args@, vf_it.index@ as int, ctx),
//@ end

//@ contract Negative::call
        ensures
            ret is Ok ==> has_type(ret->Ok_0, Type::Integer),
            arg_fails(args@, 0, ctx) ==> ret is Err,
            arg_int(args@, 0, ctx) is Some ==> ({
                let a = arg_int(args@, 0, ctx)->Some_0;
                int_result(ret, 0 - a)
            }),
            // operands of static type Integer: overflow / division by zero / shift range are the only errors of its own -- never a failed cast
            (arg_is(args@, 0, ctx, Type::Integer) && no_type_err(arg_value(args@, 0, ctx))) ==> no_type_err(ret),
//@ end

// ---------------------------------------------------------------- BitNot

//@ contract BitNot::signature
        ensures
            ret is Ok ==> (ret->Ok_0 == Type::Integer && args@.len() >= 1),
            // accepted ==> every operand has static type Integer (or Any)
            ret is Ok ==> (sig_arg(args@, 0, ctx, Type::Integer)),
//@ end
//@ loop BitNot::signature 0
                    invariant targs_ok(targs@, args@, vf_it.index@ as int, ctx),
//@ end

//@ contract BitNot::call
        ensures
            ret is Ok ==> has_type(ret->Ok_0, Type::Integer),
            arg_fails(args@, 0, ctx) ==> ret is Err,
            arg_int(args@, 0, ctx) is Some ==> ({
                let a = arg_int(args@, 0, ctx)->Some_0;
                ret == Ok::<Value, Error>(Value::Integer(!a))
            }),
            // operands of static type Integer: overflow / division by zero / shift range are the only errors of its own -- never a failed cast
            (arg_is(args@, 0, ctx, Type::Integer) && no_type_err(arg_value(args@, 0, ctx))) ==> no_type_err(ret),
//@ end
