// Sidecar for unit `timeouts` (src/context.rs) -- C13 (idle timeout honoured).
// Property text: "A tunnel on which neither direction has carried data for the configured idle period (0 disables)
// is closed by the proxy within that period plus scheduling granularity, and a tunnel is never closed for idleness
// while either direction has carried data more recently than the period."
// What one call can decide: the threshold test itself, for EVERY wall-clock reading (the clock may step backwards,
// so `now < last_read` is a legal input) and EVERY configured period; and that carrying data refreshes `last_read`.
// The 1 s ticker / select! loop that calls is_timeout on both directions is outside this unit (DESIGN C13).

/// the property's threshold, in unbounded integers: idle for strictly longer than the period; period 0 disables.
/// All quantities in milliseconds, `period_ns` in nanoseconds as std::time::Duration keeps it.
pub open spec fn idle_expired(now_ms: int, last_ms: int, period_ns: nat) -> bool {
    period_ns != 0 && now_ms - last_ms > (period_ns / 1_000_000) as int
}

/// "never closed while data was carried more recently than the period" -- a reading that is not later than
/// last_read + period never expires, in particular any reading EARLIER than last_read (clock stepped back).
proof fn lemma_no_early_close(now_ms: int, last_ms: int, period_ns: nat)
    requires now_ms <= last_ms + (period_ns / 1_000_000) as int,
    ensures !idle_expired(now_ms, last_ms, period_ns),
{
}

/// "closed within the period": any reading later than last_read + period expires (period != 0).
proof fn lemma_close_when_idle(now_ms: int, last_ms: int, period_ns: nat)
    requires period_ns != 0, now_ms > last_ms + (period_ns / 1_000_000) as int,
    ensures idle_expired(now_ms, last_ms, period_ns),
{
}

// ContextStatistics has private fields and public methods: the contracts go through closed accessors.
impl ContextStatistics {
    pub closed spec fn last_read_ms(&self) -> u64 { self.last_read@ }
    pub closed spec fn bytes(&self) -> usize { self.read_bytes@ }
    pub closed spec fn frames(&self) -> usize { self.read_frames@ }
}

//@ contract SystemTime::unix_timestamp
        ensures
            self.millis() <= u64::MAX ==> ret == self.millis(),
//@ end

//@ contract ContextStatistics::is_timeout
        ensures
            timeout.ns() == 0 ==> !ret,
            timeout.ns() != 0 ==> exists|now: u64| #[trigger] wall_clock_reading(now as nat)
                && ret == idle_expired(now as int, self.last_read_ms() as int, timeout.ns()),
//@ end

//@ contract ContextStatistics::incr_sent_bytes
        ensures
            final(self).bytes() == wrap_add_usize(old(self).bytes(), cnt),
            final(self).frames() == old(self).frames(),
            exists|now: u64| #[trigger] wall_clock_reading(now as nat) && final(self).last_read_ms() == now,
//@ end

//@ contract ContextStatistics::incr_sent_frames
        ensures
            final(self).frames() == wrap_add_usize(old(self).frames(), cnt),
            final(self).bytes() == old(self).bytes(),
            exists|now: u64| #[trigger] wall_clock_reading(now as nat) && final(self).last_read_ms() == now,
//@ end

// A tunnel that has carried nothing yet is as old as its creation: the statistics start with "last data = now", so it
// cannot be closed for idleness before a full period has passed (C13 "only then").
//@ contract ContextStatistics::default
        ensures
            ret.bytes() == 0, ret.frames() == 0,
            exists|now: u64| #[trigger] wall_clock_reading(now as nat) && ret.last_read_ms() == now,
//@ end
