// Sidecar for unit `target_display` (src/context.rs `impl Display for TargetAddress`): C03, HTTP CONNECT re-encoding.
// The CONNECT line and Host header are produced with this Display impl (HttpRequest::new("CONNECT", &target)); the
// text must be the canonical one the next hop parses back: "host:port" for a domain, std's SocketAddr text for an
// IP destination (which brackets IPv6 literals: "[2001:db8::1]:443").

pub open spec fn target_text(t: TargetAddress) -> Seq<u8> {
    match t {
        TargetAddress::DomainPort(h, p) => string_bytes(h) + seq![58u8] + dec_u16(p),
        TargetAddress::SocketAddr(a) => sockaddr_text(a),
        TargetAddress::Unknown => fmt0("unknown"),
    }
}

pub trait VfToOwned { fn vf_to_owned(&self) -> (r: String); }
impl VfToOwned for String {
    #[verifier::external_body]
    fn vf_to_owned(&self) -> (r: String) ensures r == *self { unimplemented!() }
}
impl VfToOwned for &str {
    #[verifier::external_body]
    fn vf_to_owned(&self) -> (r: String) ensures string_bytes(r) == str_bytes(*self) { unimplemented!() }
}

//@ contract TargetAddressDisplay::fmt
    ensures
        ret.is_ok() ==> final(f).out() == old(f).out() + target_text(*self),
//@ end

//@ hint TargetAddressDisplay::fmt before `match self`
        proof {
            assert forall|a: Seq<u8>, b: Seq<u8>| #[trigger] fmt2("{}:{}", a, b) == a + seq![58u8] + b by { axiom_fmt_literals(a, b); }
            assert forall|a: Seq<u8>| #[trigger] fmt1("{}", a) == a by { axiom_fmt_literals(a, a); }
        }
//@ end
