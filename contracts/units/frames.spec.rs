// Sidecar for unit `frames` (src/common/frames.rs + TargetAddress from src/context.rs)
// C03 / C10: the RPFM frame codec carries (address, session id, payload) exactly; C12: StreamFrameReader::read is a
// function of the byte stream alone (any segmentation); C05: no decoder function panics on any input.
//
// Wire format (comment in frames.rs): MAGIC(4) SESSID(4) ATTR_LEN(2) BODY_LEN(2) ATTR BODY, ATTR = T(1) L(1) V(L)
//   T=3 host: V = host bytes ++ port(2);  T=1 ipv4: V = ip(4) port(2);  T=2 ipv6: V = ip(16) port(2)

/// can this address be carried by the attribute encoding (1-byte length covering host ++ port)
pub open spec fn addr_repr(v: AddrV) -> bool {
    match v {
        AddrV::Domain(h, _) => h.len() <= 253 && is_utf8(h),
        AddrV::V6(o, _) => o.len() == 16,
        _ => true,
    }
}

pub open spec fn addr_image(v: AddrV) -> Seq<u8> {
    match v {
        AddrV::NoAddr => Seq::<u8>::empty(),
        AddrV::Domain(h, p) => seq![3u8, (h.len() + 2) as u8] + h + be16_bytes(p),
        AddrV::V4(ip, p) => seq![1u8, 6u8] + be32_bytes(ip) + be16_bytes(p),
        AddrV::V6(o, p) => seq![2u8, 18u8] + o + be16_bytes(p),
    }
}

/// decoding of an attribute block; None = malformed
pub open spec fn addr_parse(b: Seq<u8>) -> Option<AddrV> {
    if b.len() == 0 {
        Some(AddrV::NoAddr)
    } else if b.len() < 2 {
        None
    } else {
        let tag = b[0];
        let l = b[1] as int;
        if l > b.len() - 2 {
            None
        } else if tag == 3 {
            if l < 2 || !is_utf8(b.subrange(2, l)) { None }
            else { Some(AddrV::Domain(b.subrange(2, l), be16(b.subrange(l, l + 2)))) }
        } else if tag == 1 {
            if l != 6 { None } else { Some(AddrV::V4(be32(b.subrange(2, 6)), be16(b.subrange(6, 8)))) }
        } else if tag == 2 {
            if l != 18 { None } else { Some(AddrV::V6(b.subrange(2, 18), be16(b.subrange(18, 20)))) }
        } else {
            None
        }
    }
}

/// C03/C10 round trip: every representable address decodes to itself
proof fn lemma_addr_roundtrip(v: AddrV)
    requires addr_repr(v),
    ensures addr_parse(addr_image(v)) == Some(v),
{
    match v {
        AddrV::NoAddr => {}
        AddrV::Domain(h, p) => {
            let b = addr_image(v);
            let l = (h.len() + 2) as int;
            assert(b.len() == h.len() + 4);
            assert(b[1] as int == l);
            assert(b.subrange(2, l) =~= h);
            assert(b.subrange(l, l + 2) =~= be16_bytes(p));
            lemma_be16_roundtrip(p);
        }
        AddrV::V4(ip, p) => {
            let b = addr_image(v);
            assert(b.len() == 8);
            assert(b.subrange(2, 6) =~= be32_bytes(ip));
            assert(b.subrange(6, 8) =~= be16_bytes(p));
            lemma_be16_roundtrip(p);
            lemma_be32_roundtrip(ip);
        }
        AddrV::V6(o, p) => {
            let b = addr_image(v);
            assert(b.len() == 20);
            assert(b.subrange(2, 18) =~= o);
            assert(b.subrange(18, 20) =~= be16_bytes(p));
            lemma_be16_roundtrip(p);
        }
    }
}

// ---------------------------------------------------------------- TargetAddress conversions (context.rs)

impl vstd::std_specs::convert::FromSpecImpl<(u32, u16)> for TargetAddress {
    open spec fn obeys_from_spec() -> bool { true }
    open spec fn from_spec(p: (u32, u16)) -> TargetAddress {
        TargetAddress::SocketAddr(SocketAddr::V4(SocketAddrV4 { ip: Ipv4Addr { bits: p.0 }, port: p.1 }))
    }
}
impl vstd::std_specs::convert::FromSpecImpl<([u8; 16], u16)> for TargetAddress {
    open spec fn obeys_from_spec() -> bool { true }
    open spec fn from_spec(p: ([u8; 16], u16)) -> TargetAddress {
        TargetAddress::SocketAddr(SocketAddr::V6(SocketAddrV6 { ip: Ipv6Addr { octs: p.0 }, port: p.1 }))
    }
}
impl vstd::std_specs::convert::FromSpecImpl<(String, u16)> for TargetAddress {
    open spec fn obeys_from_spec() -> bool { true }
    open spec fn from_spec(p: (String, u16)) -> TargetAddress { TargetAddress::DomainPort(p.0, p.1) }
}

// ---------------------------------------------------------------- decode_address / encode_address

//@ contract decode_address
    ensures
        ret.is_ok() <==> addr_parse(buf@).is_some(),
        ret.is_ok() ==> opt_ta_view(ret.unwrap()) == addr_parse(buf@).unwrap(),
//@ end

//@ hint decode_address before `buf.is_empty()`
    let ghost b0 = buf@;
//@ end

//@ hint decode_address before `match tag`
    proof {
        assert(buf@ =~= b0.subrange(2, b0.len() as int));
        // the host field, wherever the body takes it from the remaining buffer
        if 2 <= len { assert(buf@.subrange(0, len - 2) =~= b0.subrange(2, len as int)); }
    }
//@ end

//@ hint decode_address before `buf.get_u16()` nth=0
            proof {
                assert(buf@ =~= b0.subrange(len as int, b0.len() as int));
                assert(be16(buf@) == be16(b0.subrange(len as int, len + 2)));
            }
//@ end

//@ hint decode_address before `buf.get_u32()`
            proof { assert(be32(buf@) == be32(b0.subrange(2, 6))); }
//@ end

//@ hint decode_address before `buf.get_u16()` nth=1
            proof {
                assert(buf@ =~= b0.subrange(6, b0.len() as int));
                assert(be16(buf@) == be16(b0.subrange(6, 8)));
            }
//@ end

//@ hint decode_address before `buf.get_u16()` nth=2
            proof {
                assert(host@ =~= b0.subrange(2, 18));
                assert(buf@ =~= b0.subrange(18, b0.len() as int));
                assert(be16(buf@) == be16(b0.subrange(18, 20)));
            }
//@ end

//@ contract encode_address
    ensures
        // refused (None, nothing usable written) exactly when the address cannot be represented ...
        ret.is_some() <==> addr_repr(opt_ta_view(match addr { Some(a) => Some(*a), None => None })),
        // ... otherwise exactly its attribute image is appended
        ret.is_some() ==> final(buf)@ == old(buf)@ + addr_image(opt_ta_view(match addr { Some(a) => Some(*a), None => None })),
//@ end

//@ hint encode_address before `string_as_bytes(host)`
            proof { axiom_string_utf8(*host); }
//@ end

// ---------------------------------------------------------------- Frame header

pub open spec fn header_image(sid: u32, attr: Seq<u8>, body_len: nat) -> Seq<u8> {
    be32_bytes(0x5250464d) + be32_bytes(sid) + be16_bytes(attr.len() as u16) + be16_bytes(body_len as u16) + attr
}

pub open spec fn frame_repr(f: Frame) -> bool {
    addr_repr(opt_ta_view(f.addr)) && f.body@.len() <= 65535
}

pub open spec fn frame_image(f: Frame) -> Seq<u8> {
    header_image(f.session_id, addr_image(opt_ta_view(f.addr)), f.body@.len()) + f.body@
}

/// (session id, address, body) of the frame that `b` is exactly; None = malformed / truncated
pub open spec fn frame_parse(b: Seq<u8>) -> Option<(u32, AddrV, Seq<u8>)> {
    if b.len() < 12 || be32(b) != 0x5250464d {
        None
    } else {
        let al = be16(b.subrange(8, 10)) as int;
        let bl = be16(b.subrange(10, 12)) as int;
        if b.len() < 12 + al + bl {
            None
        } else {
            match addr_parse(b.subrange(12, 12 + al)) {
                None => None,
                Some(a) => Some((be32(b.subrange(4, 8)), a, b.subrange(12 + al, 12 + al + bl))),
            }
        }
    }
}

/// total length announced by a frame head: None = fewer than 12 bytes; Some(None) = bad magic
pub open spec fn head_total(b: Seq<u8>) -> Option<Option<nat>> {
    if b.len() < 12 { None }
    else if be32(b) != 0x5250464d { Some(None) }
    else { Some(Some((12 + be16(b.subrange(8, 10)) + be16(b.subrange(10, 12))) as nat)) }
}

//@ contract Frame::from_body
    ensures ret.addr.is_none(), ret.session_id == 0, ret.body@ == buf@,
//@ end

//@ contract Frame::body
    ensures ret@ == self.body@,
//@ end

//@ contract Frame::len
    ensures ret == self.body@.len(),
//@ end

//@ contract Frame::read_head
    ensures
        head_total(buf.bview()).is_none() ==> ret.is_ok() && ret.unwrap().is_none(),
        head_total(buf.bview()) == Some(None::<nat>) ==> ret.is_err(),
        head_total(buf.bview()).is_some() && head_total(buf.bview()).unwrap().is_some() ==>
            ret.is_ok() && ret.unwrap() == Some(head_total(buf.bview()).unwrap().unwrap() as usize),
//@ end

//@ hint Frame::read_head before `buf.get_u32()`
        proof {
            let b0 = buf.bview();
            assert(b0.subrange(4, b0.len() as int).subrange(4, b0.len() - 4).subrange(0, 2) =~= b0.subrange(8, 10)) by {
                assert(b0.subrange(4, b0.len() as int).subrange(4, b0.len() - 4) =~= b0.subrange(8, b0.len() as int));
            }
        }
//@ end

//@ contract Frame::from_buffer
    ensures
        ret.is_ok() <==> frame_parse(buf@).is_some(),
        ret.is_ok() ==> {
            let f = ret.unwrap();
            let p = frame_parse(buf@).unwrap();
            &&& f.session_id == p.0
            &&& opt_ta_view(f.addr) == p.1
            &&& f.body@ == p.2
        },
//@ end

//@ hint Frame::from_buffer before `buf.len() < 12`
        let ghost b0 = buf@;
//@ end

//@ hint Frame::from_buffer before `head.get_u32()` nth=0
        proof { assert(be32(head@) == be32(b0)); }
//@ end

//@ hint Frame::from_buffer before `head.get_u32()` nth=1
        proof { assert(head@ =~= b0.subrange(4, 12)); assert(be32(head@) == be32(b0.subrange(4, 8))); }
//@ end

//@ hint Frame::from_buffer before `head.get_u16()` nth=0
        proof { assert(head@ =~= b0.subrange(8, 12)); assert(be16(head@) == be16(b0.subrange(8, 10))); }
//@ end

//@ hint Frame::from_buffer before `head.get_u16()` nth=1
        proof { assert(head@ =~= b0.subrange(10, 12)); assert(be16(head@) == be16(b0.subrange(10, 12))); }
//@ end

//@ hint Frame::from_buffer before `Self::from_body(body)`
        proof {
            assert(attr@ =~= b0.subrange(12, 12 + attr_len));
            assert(body@ =~= b0.subrange(12 + attr_len, 12 + attr_len + body_len));
        }
//@ end

//@ contract Frame::parse_attr
    ensures
        ret.is_ok() <==> addr_parse(buf@).is_some(),
        ret.is_ok() ==> opt_ta_view(final(self).addr) == addr_parse(buf@).unwrap(),
        final(self).session_id == old(self).session_id,
        final(self).body@ == old(self).body@,
//@ end

//@ contract Frame::try_make_header
    ensures
        // a frame whose address or body length does not fit the header fields is refused, never truncated
        ret.is_some() <==> frame_repr(*self),
        ret.is_some() ==> ret.unwrap()@ == header_image(self.session_id, addr_image(opt_ta_view(self.addr)), self.body@.len()),
//@ end

//@ contract Frame::write_to
    ensures
        ret.is_ok() ==> {
            &&& frame_repr(*self)
            &&& final(output).written() == old(output).written() + frame_image(*self)
            &&& final(output).flushed_len() == final(output).written().len()
            &&& ret.unwrap() == frame_image(*self).len()
        },
        // an unrepresentable frame is an error and nothing of it is written
        !frame_repr(*self) ==> ret.is_err() && final(output).written() == old(output).written(),
//@ end

/// C10: what the stream writer emits is decoded by from_buffer to the same (session id, address, payload)
proof fn lemma_frame_roundtrip(f: Frame)
    requires frame_repr(f),
    ensures frame_parse(frame_image(f)) == Some((f.session_id, opt_ta_view(f.addr), f.body@)),
{
    let a = addr_image(opt_ta_view(f.addr));
    let b = frame_image(f);
    let al = a.len() as int;
    let bl = f.body@.len() as int;
    lemma_addr_image_len(opt_ta_view(f.addr));
    assert(b.len() == 12 + al + bl);
    assert(b.subrange(0, 4) =~= be32_bytes(0x5250464d));
    assert(be32(b) == be32(b.subrange(0, 4)));
    lemma_be32_roundtrip(0x5250464d);
    assert(b.subrange(4, 8) =~= be32_bytes(f.session_id));
    lemma_be32_roundtrip(f.session_id);
    assert(b.subrange(8, 10) =~= be16_bytes(al as u16));
    lemma_be16_roundtrip(al as u16);
    assert(b.subrange(10, 12) =~= be16_bytes(bl as u16));
    lemma_be16_roundtrip(bl as u16);
    assert(b.subrange(12, 12 + al) =~= a);
    assert(b.subrange(12 + al, 12 + al + bl) =~= f.body@);
    lemma_addr_roundtrip(opt_ta_view(f.addr));
}

proof fn lemma_addr_image_len(v: AddrV)
    requires addr_repr(v),
    ensures addr_image(v).len() <= 257,
{
}

// ---------------------------------------------------------------- StreamFrameReader (C12)

impl<T: AsyncRead> StreamFrameReader<T> {
    /// the logical byte stream still to be decoded: read-ahead buffer followed by what the socket will deliver
    spec fn stream(&self) -> Seq<u8> {
        (match self.remaining { Some(b) => b@, None => Seq::<u8>::empty() }) + self.inner.inp()
    }
}

/// does `s` start with a complete frame (head parses and at least the announced number of bytes are present)
pub open spec fn complete_prefix(s: Seq<u8>) -> Option<nat> {
    match head_total(s) {
        Some(Some(n)) => if s.len() >= n { Some(n) } else { None },
        _ => None,
    }
}

//@ contract StreamFrameReader::read
    ensures
        // a frame is returned only if the stream starts with one complete frame; it is exactly that frame and exactly
        // its bytes are consumed -- whatever the segmentation was (AsyncRead::read returns arbitrary chunk sizes)
        ret.is_ok() && ret.unwrap().is_some() ==> {
            let f = ret.unwrap().unwrap();
            let s = old(self).stream();
            &&& complete_prefix(s).is_some()
            &&& frame_parse(s.subrange(0, complete_prefix(s).unwrap() as int)) == Some((f.session_id, opt_ta_view(f.addr), f.body@))
            &&& final(self).stream() == s.subrange(complete_prefix(s).unwrap() as int, s.len() as int)
        },
        // clean end of stream: only when the input has ended and what was left is not a complete frame
        ret.is_ok() && ret.unwrap().is_none() ==> {
            &&& final(self).inner.inp().len() == 0
            &&& complete_prefix(old(self).stream()).is_none()
        },
//@ end

//@ loop StreamFrameReader::read 0
            invariant
                self.stream() == old(self).stream(),
            decreases self.inner.inp().len(),
//@ end

//@ hint StreamFrameReader::read before `buf.split_to(ret)`
                        proof {
                            let s = old(self).stream();
                            assert(s =~= buf@ + self.inner.inp());
                            assert(be32(s) == be32(buf@));
                            assert(s.subrange(8, 10) =~= buf@.subrange(8, 10));
                            assert(s.subrange(10, 12) =~= buf@.subrange(10, 12));
                            assert(complete_prefix(s) == Some(ret as nat));
                            assert(s.subrange(0, ret as int) =~= buf@.subrange(0, ret as int));
                            assert(s.subrange(ret as int, s.len() as int) =~= buf@.subrange(ret as int, buf@.len() as int) + self.inner.inp());
                        }
//@ end

// ---------------------------------------------------------------- StreamFrameWriter (C10)

//@ contract StreamFrameWriter::write
    ensures
        // the frame goes out under the WRITER's session id, complete and flushed -- or not at all
        ret.is_ok() ==> {
            let f = Frame { addr: frame.addr, session_id: old(self).session_id, body: frame.body };
            &&& frame_repr(frame)
            &&& final(self).inner.written() == old(self).inner.written() + frame_image(f)
            &&& final(self).inner.flushed_len() == final(self).inner.written().len()
        },
        !frame_repr(frame) ==> ret.is_err() && final(self).inner.written() == old(self).inner.written(),
        final(self).session_id == old(self).session_id,
//@ end

//@ contract StreamFrameWriter::shutdown
    ensures
        final(self).inner.written() == old(self).inner.written(),
        ret.is_ok() ==> final(self).inner.flushed_len() == final(self).inner.written().len(),
//@ end
