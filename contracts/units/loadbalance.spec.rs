// Sidecar for unit `loadbalance` (src/connectors/loadbalance.rs) -- C17, and C18 for `verify`.
// Property C17: "A load-balancing upstream only ever selects among its configured members: round-robin selects each
// of n members exactly k times in any k*n consecutive selections even when requests arrive concurrently; hash-by
// selects the same member for all requests whose key expression evaluates to the same value; random selects only
// members and every member with non-zero frequency.  The member actually used is the one recorded for the connection."
//
// How the text becomes obligations:
//  * "only ever selects among its configured members": every selector returns `state.connectors[self.connectors[i]]`
//    for some i < n -- postconditions `picks(..)` below.  The `unwrap()`s, the index and the `% len` are obligations
//    discharged from `members_ok`, which is exactly what `verify` returning Ok establishes (call order verify-before-
//    connect is assumption A10).
//  * round-robin: i == t % n where t is the ticket handed out by the ONE fetch_add(1) of the call (contract of the
//    atomic, A5: linearizable, distinct callers get consecutive tickets -- that is where concurrency enters), and the
//    counter advances by exactly one.  Lemma `rr_fair` turns consecutive tickets into "each member exactly k times".
//  * hash-by: i == H(key) % n where `key` is the value the key expression really evaluated to for this request and H
//    is a pure function (DefaultHasher::new() has a fixed key).  Lemma `sticky`.
//  * random: i is some index < n (non-zero frequency of every member is `rand`'s, trusted).
//  * "the member actually used is the one recorded": `connect` records `conn.name()`; every selector ensures
//    `conn.name_spec() == self.connectors[i]` given a registry keyed by name (established by connectors::from_config,
//    proved in unit config_dispatch).  `connect` itself is a Kani stub-unit (DESIGN C17), not part of this unit.

impl LoadBalanceConnector {
    spec fn n(&self) -> int { self.connectors@.len() as int }

    /// what `verify` must establish: at least one member, and every member is a configured connector
    spec fn members_ok(&self, state: &GlobalState) -> bool {
        &&& self.connectors@.len() > 0
        &&& forall|i: int| 0 <= i < self.connectors@.len() ==> state.connectors@.dom().contains(#[trigger] self.connectors@[i]@)
    }

    /// what `init` must establish: a hash-by balancer has its compiled key expression
    spec fn hash_by_ready(&self) -> bool {
        self.algorithm is HashBy ==> self.hash_by.is_some()
    }

    /// the balancer names itself as one of its members
    spec fn lists_itself(&self) -> bool {
        exists|i: int| 0 <= i < self.connectors@.len() && (#[trigger] self.connectors@[i])@ == self.name@
    }

    /// the registered connector of member number `i`
    spec fn member(&self, state: &GlobalState, i: int) -> ArcConnector {
        state.connectors@[self.connectors@[i]@]
    }

    /// `c` is the registered connector of member number `i`, and (registry keyed by name) carries that member's name
    spec fn picks(&self, state: &GlobalState, c: ArcConnector, i: int) -> bool {
        &&& 0 <= i < self.n()
        &&& c == self.member(state, i)
        &&& c.name_spec() == self.connectors@[i]@
    }
}

// ---------------------------------------------------------------- init  (C17 + C18)

//@ contract LoadBalanceConnector::init
        requires true,
        ensures
            // Ok: the key expression of a hash-by balancer is compiled (discharges the unwrap in hash_by);
            // a script that does not parse / type-check is an Err, never a panic (C18)
            ret.is_ok() ==> final(self).hash_by_ready(),
            final(self).connectors == old(self).connectors,
            final(self).name == old(self).name,
            final(self).algorithm == old(self).algorithm,
            final(self).idx@ == old(self).idx@,
//@ end

// ---------------------------------------------------------------- verify  (C17 + C18)

//@ contract LoadBalanceConnector::verify
        requires true,
        ensures
            // C17: Ok exactly when the selectors' precondition holds
            ret.is_ok() ==> self.members_ok(&*state),
            self.members_ok(&*state) && !self.lists_itself() ==> ret.is_ok(),
            // C18 "self-referential configuration never crashes the process": a balancer that lists itself makes
            // `connect` call itself without bound (stack overflow on the first request, confirmed natively: finding
            // F18), so start-up validation must refuse it.  Only the DIRECT self-reference is stated here; cycles
            // through other balancers need a graph traversal over `dyn Connector` and are NOT decided (known gap).
            ret.is_ok() ==> !self.lists_itself(),
//@ end

//@ loop LoadBalanceConnector::verify 0
            invariant
                self.connectors@.len() > 0,
                forall|j: int| 0 <= j < vf_it.index@ ==> state.connectors@.dom().contains(#[trigger] self.connectors@[j]@),
                forall|j: int| 0 <= j < vf_it.index@ ==> (#[trigger] self.connectors@[j])@ != self.name@,
//@ end

// ---------------------------------------------------------------- round_robin

//@ contract LoadBalanceConnector::round_robin
        requires
            old(self).members_ok(&**state),
            state.connectors.keyed_by_name(),
        ensures
            // never an error, never a panic
            ret.is_ok(),
            // the member of ticket t = previous counter value is selected ...
            final(self).picks(&**state, ret.unwrap(), (old(self).idx@ as int) % old(self).n()),
            // ... and exactly one ticket is consumed (wrapping, as the atomic does)
            final(self).idx@ == wrap_add_usize(old(self).idx@, 1),
            // nothing else of the balancer changes
            final(self).connectors == old(self).connectors,
            final(self).name == old(self).name,
            final(self).hash_by == old(self).hash_by,
//@ end

// ---------------------------------------------------------------- hash_by

/// index selected for a key value: DefaultHasher::new(), feed the value, finish, `as usize`, `% n`
spec fn hash_index(key: int, n: int) -> int {
    ((hasher_finish(hasher_step(hasher_init(), key)) as usize) as int) % n
}

//@ contract LoadBalanceConnector::hash_by
        requires
            self.members_ok(&**state),
            state.connectors.keyed_by_name(),
            // `connect` calls hash_by only in the `Algorithm::HashBy(_)` arm (its dispatch is a Kani stub-unit), and
            // `init` returned Ok before (postcondition of init above; call order init -> verify -> connect is A10)
            self.algorithm is HashBy,
            self.hash_by_ready(),
        ensures
            // Err only when the key script fails; Ok: the member is a function of the value the key expression
            // evaluated to for THIS request
            ret.is_ok() ==> exists|key: int| #[trigger] script_evaluated(self.hash_by.unwrap(), ctx.props_spec(), key)
                && self.picks(&**state, ret.unwrap(), hash_index(key, self.n())),
//@ end

// ---------------------------------------------------------------- random

//@ contract LoadBalanceConnector::random
        requires
            self.members_ok(&**state),
            state.connectors.keyed_by_name(),
        ensures
            ret.is_ok(),
            // some member (which one is rand's choice)
            exists|i: int| 0 <= i < self.n() && ret.unwrap() == #[trigger] self.member(&**state, i)
                && ret.unwrap().name_spec() == self.connectors@[i]@,
//@ end

//@ hint LoadBalanceConnector::random after `let next = self.connectors.choose(&mut thread_rng()).unwrap();`
        let ghost gi: int = choose|i: int| 0 <= i < self.connectors@.len() && *next == #[trigger] self.connectors@[i];
        proof {
            assert(self.connectors.sr_view() == self.connectors@);
            assert(0 <= gi < self.n() && *next == self.connectors@[gi]);
            assert(state.connectors@.dom().contains(self.connectors@[gi]@));
            // witness for the postcondition: the chosen element is member number gi
            assert(self.member(&**state, gi) == state.connectors@[next@]);
        }
//@ end

// ---------------------------------------------------------------- lemma `sticky` (hash-by)

/// Two requests whose key expression evaluates to the same value are sent to the same member (same index, hence --
/// by `picks` -- the same registered connector and the same recorded name).
proof fn sticky(lb: LoadBalanceConnector, state: GlobalState, key1: int, key2: int, c1: ArcConnector, c2: ArcConnector)
    requires
        key1 == key2,
        lb.picks(&state, c1, hash_index(key1, lb.n())),
        lb.picks(&state, c2, hash_index(key2, lb.n())),
    ensures
        c1 == c2,
        c1.name_spec() == c2.name_spec(),
{
}

// ---------------------------------------------------------------- lemma `rr_fair` (round-robin)

/// number of selections i in [0, m) whose ticket c+i lands on member r
spec fn count_res(c: int, n: int, m: nat, r: int) -> nat
    decreases m
{
    if m == 0 {
        0
    } else {
        count_res(c, n, (m - 1) as nat, r) + (if (c + (m - 1)) % n == r { 1nat } else { 0nat })
    }
}

/// the ticket of the i-th selection after the counter held c: i applications of the atomic's wrapping +1
spec fn ticket(c: usize, i: nat) -> usize
    decreases i
{
    if i == 0 { c } else { wrap_add_usize(ticket(c, (i - 1) as nat), 1) }
}

proof fn lemma_ticket_no_wrap(c: usize, i: nat)
    requires c + i <= usize::MAX,
    ensures ticket(c, i) == c + i,
    decreases i
{
    if i > 0 {
        lemma_ticket_no_wrap(c, (i - 1) as nat);
    }
}

/// selections [0, a+b) = selections [0, a) followed by b selections starting at c+a
proof fn lemma_count_split(c: int, n: int, a: nat, b: nat, r: int)
    ensures count_res(c, n, a + b, r) == count_res(c, n, a, r) + count_res(c + a, n, b, r),
    decreases b
{
    if b > 0 {
        lemma_count_split(c, n, a, (b - 1) as nat, r);
        assert((a + b - 1) as nat == a + (b - 1) as nat);
        assert(c + (a + b - 1) == (c + a) + (b - 1));
    }
}

/// a window that starts at a multiple of n (here 0) and is at most n long hits r iff r < m
proof fn lemma_count_aligned(n: int, m: nat, r: int)
    requires n > 0, m <= n, 0 <= r < n,
    ensures count_res(0, n, m, r) == (if r < m { 1nat } else { 0nat }),
    decreases m
{
    if m > 0 {
        lemma_count_aligned(n, (m - 1) as nat, r);
        vstd::arithmetic::div_mod::lemma_small_mod((m - 1) as nat, n as nat);
        assert((0 + (m - 1)) % n == m - 1);
    }
}

/// any n consecutive tickets hit every member exactly once
proof fn lemma_window(c: int, n: int, r: int)
    requires c >= 0, n > 0, 0 <= r < n,
    ensures count_res(c, n, n as nat, r) == 1,
    decreases c
{
    if c == 0 {
        lemma_count_aligned(n, n as nat, r);
    } else {
        let p: int = c - 1;
        lemma_window(p, n, r);
        // window at p = {p} ++ [p+1, p+n)
        lemma_count_split(p, n, 1, (n - 1) as nat, r);
        assert(count_res(p, n, 1, r) == count_res(p, n, 0, r) + (if (p + 0) % n == r { 1nat } else { 0nat }));
        assert(count_res(p, n, 0, r) == 0);
        // window at c = [c, c+n-1) ++ {c+n-1 = p+n}, and p+n lands where p does
        assert(count_res(c, n, n as nat, r)
            == count_res(c, n, (n - 1) as nat, r) + (if (c + (n - 1)) % n == r { 1nat } else { 0nat }));
        vstd::arithmetic::div_mod::lemma_mod_add_multiples_vanish(p, n);
        assert((n + p) % n == p % n);
        assert(c + (n - 1) == n + p);
        assert(1 + (n - 1) as nat == n as nat);
    }
}

/// ints: for every start c >= 0, n > 0 members and k rounds, each member r is hit exactly k times in k*n selections
proof fn lemma_rr_fair_int(c: nat, n: int, k: nat, r: int)
    requires n > 0, 0 <= r < n,
    ensures count_res(c as int, n, (k * n) as nat, r) == k,
    decreases k
{
    if k == 0 {
        assert(k * n == 0);
    } else {
        let k1 = (k - 1) as nat;
        lemma_rr_fair_int(c, n, k1, r);
        assert(k * n == k1 * n + n) by (nonlinear_arith) requires k == k1 + 1;
        assert(k1 * n >= 0) by (nonlinear_arith) requires k1 >= 0, n > 0;
        lemma_count_split(c as int, n, (k1 * n) as nat, n as nat, r);
        lemma_window(c + k1 * n, n, r);
        assert((k * n) as nat == (k1 * n) as nat + n as nat);
    }
}

/// number of the first m selections (counter initially c, machine arithmetic) that pick member r
spec fn rr_count(c: usize, n: int, m: nat, r: int) -> nat
    decreases m
{
    if m == 0 {
        0
    } else {
        rr_count(c, n, (m - 1) as nat, r) + (if (ticket(c, (m - 1) as nat) as int) % n == r { 1nat } else { 0nat })
    }
}

proof fn lemma_rr_count_is_count_res(c: usize, n: int, m: nat, r: int)
    requires c + m <= usize::MAX + 1,
    ensures rr_count(c, n, m, r) == count_res(c as int, n, m, r),
    decreases m
{
    if m > 0 {
        lemma_rr_count_is_count_res(c, n, (m - 1) as nat, r);
        lemma_ticket_no_wrap(c, (m - 1) as nat);
    }
}

/// C17 round-robin: starting from ANY counter value c, in k*n consecutive selections (consecutive tickets, handed out
/// by fetch_add to whichever callers, concurrent or not) each of the n members is selected exactly k times --
/// provided the counter does not wrap inside the window (stated precondition; DESIGN A6).
proof fn rr_fair(c: usize, n: int, k: nat, r: int)
    requires
        n > 0,
        0 <= r < n,
        c + k * n <= usize::MAX,
    ensures
        rr_count(c, n, (k * n) as nat, r) == k,
{
    assert(k * n >= 0) by (nonlinear_arith) requires k >= 0, n > 0;
    lemma_rr_count_is_count_res(c, n, (k * n) as nat, r);
    lemma_rr_fair_int(c as nat, n, k, r);
}

// ---------------------------------------------------------------- connect (dispatch + "recorded == used")

//@ contract LoadBalanceConnector::connect
        requires
            old(self).members_ok(&*state),
            state.connectors.keyed_by_name(),
            old(self).algorithm is HashBy ==> old(self).hash_by_ready(),
//@ end
