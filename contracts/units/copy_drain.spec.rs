// Sidecar for unit `copy_drain` (src/copy.rs): C12 "leaves exactly the following bytes unread for the tunnel" -- the bytes a
// peer sent in the same segment as its handshake sit in the BufReader; before the raw sockets are unwrapped they must be
// forwarded to the other side, once, in order, and everything pending must be flushed.

//@ contract drain_buffers
    ensures
        ret.is_ok() ==> {
            &&& final(to).written() == old(to).written() + old(from).buffered()
            &&& final(to).flushed_len() == final(to).written().len()
        },
        final(from).buffered() == old(from).buffered() && final(from).written() == old(from).written()
            && final(from).flushed_len() == old(from).flushed_len(),
        final(to).buffered() == old(to).buffered(),
//@ end

// the two statements of copy_bidi between `if let Some((mut client, mut server)) = streams {` and the unwrapping of the
// raw streams (T14: extracted as a block; the rest of copy_bidi -- select! relay -- is not verified)
//@ contract copy_bidi_drain_block
    ensures
        ret.is_ok() ==> {
            let c = ret.unwrap().0;
            let s = ret.unwrap().1;
            // client -> server read-ahead reaches the server, server -> client read-ahead reaches the client
            &&& s.written() == server0.written() + client0.buffered()
            &&& c.written() == client0.written() + server0.buffered()
            &&& s.flushed_len() == s.written().len()
            &&& c.flushed_len() == c.written().len()
        },
//@ end
