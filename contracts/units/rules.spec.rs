// Sidecar for unit `rules` (src/rules/mod.rs): C02 "a rule without a filter matches everything and a filter that
// fails to evaluate counts as not matching" -- the contract the process_request stub-unit assumes for Rule::evaluate.

impl Rule {
    pub closed spec fn filter_view(&self) -> Option<Filter> { self.filter }
}

//@ contract Rule::evaluate
    ensures
        ret == match self.filter_view() {
            None => true,
            Some(f) => filter_eval(&f, request) is True,
        },
//@ end
