// Sidecar for unit `config_dispatch` -- C18 (bad configuration is an error, never a crash).
// Property text: "Loading any configuration document ... either succeeds or is rejected with an error message;
// malformed, mistyped or self-referential configuration never crashes the process."
// Decided here: the four dispatch functions return (Ok or Err) for EVERY serde_yaml::Value -- `requires true`, and
// every unwrap / index / arithmetic / callee precondition inside them is an obligation.  The Value shim
// (shims/yaml.rs) promises nothing about the document, so `type: 5`, a missing `name`, a scalar where a mapping is
// expected ... are all covered.  The per-kind constructors are arbitrary-Result shims (serde, trusted).
// Additionally (used by unit `loadbalance`): a registry built by from_config stores every object under its own name.

//@ contract connectors_from_value
        requires true,
//@ end

//@ contract listeners_from_value
        requires true,
//@ end

//@ contract connectors_from_config
        requires true,
        ensures ret.is_ok() ==> ret.unwrap().keyed_by_name(),
//@ end

//@ loop connectors_from_config 0
            invariant ret.keyed_by_name(),
//@ end

//@ contract listeners_from_config
        requires true,
        ensures ret.is_ok() ==> ret.unwrap().keyed_by_name(),
//@ end

//@ loop listeners_from_config 0
            invariant ret.keyed_by_name(),
//@ end
