// Sidecar for unit `access_log` (src/access_log.rs): C08 for log formats (an accepted format never fails with a TYPE
// error at request time, and its dynamic errors never end the writer task -- whose Err aborts the process), C18
// (AccessLog::init / --test reject a log path that cannot be opened instead of failing later in a detached task).

impl ScriptFormater {
    /// the invariant `new` establishes: the checker said "String" with the SAME checker function whose values
    /// `to_string` later evaluates with (type_of <-> value_of)
    spec fn checked(&self) -> bool { self.0.static_type() is String }
}

//@ contract ScriptFormater::new
    ensures
        ret.is_ok() ==> ret->Ok_0.checked(),
//@ end

//@ contract ScriptFormater::to_string
    requires
        self.checked(),
    ensures
        // only an inherently dynamic evaluation error may come out; never a type error
        ret.is_err() ==> ret->Err_0.origin() is Format,
//@ end

impl AccessLog {
    pub closed spec fn path_openable(&self) -> bool { self.path.openable() }
}

//@ contract AccessLog::init
    ensures
        ret.is_ok() ==> old(self).path_openable(),
//@ end

//@ attr log_thread
#[verifier::exec_allows_no_decreases_clause]
//@ end

//@ contract log_thread
    ensures
        // the writer task ends (and, through its spawn wrapper, aborts the process) only for I/O or queue failures:
        // a record whose format evaluation fails is skipped
        ret.is_err() ==> !(ret->Err_0.origin() is Format),
//@ end

//@ loop log_thread 0
        invariant true,
//@ end
