// Sidecar for unit `idle_wiring` (C13): the two places outside ContextStatistics that decide idle closing.
//  * main(): the statements that copy the configured timeouts into the registry (T14 block) -- every new TCP tunnel gets
//    timeouts.idle of the CONFIGURATION (finding F14: it used to get the built-in default);
//  * copy_bidi(): the condition of the 1 s ticker arm (T18 capture) -- a tunnel is closed for idleness only when BOTH
//    directions have been silent for the period ("never closed while either direction has carried data more recently").
// The select! loop around the condition and the ticker itself are not verified.

//@ contract main_timeouts_block
    ensures
        final(ctx_mut).default_timeout == cfg.timeouts.idle,
        final(st_mut).timeouts == cfg.timeouts,
//@ end

//@ contract copy_bidi_idle_condition
    ensures
        ret == (server_stat.idle_for(idle_timeout) && client_stat.idle_for(idle_timeout)),
//@ end

// "default 600 s" (property text): an absent `timeouts` section, and an absent key inside it (serde's
// `default = "default_timeout"` names this very function), give 600 s for both periods -- in particular never 0,
// which would silently disable idle closing. The serde attributes that call these are not verified (serde trusted).
//@ contract default_timeout
    ensures
        ret == 600,
//@ end

//@ contract Timeouts::default
    ensures
        ret.idle == 600, ret.udp == 600,
//@ end
