// Sidecar for unit `socks_cb`: SOCKS listener reply callback (C06).
//   on_connect: the one reply carries code 0 (written on the wire as 90 for v4 / 0 for v5: proved in unit `socks`);
//   on_error:   the one reply carries a non-zero failure code, or nothing when the client stream is gone.

//@ contract Callback::on_connect
    requires old(ctx).stream.is_some(),
    ensures
        final(ctx).stream.is_some(),
        final(ctx).stream.unwrap().replies() == old(ctx).stream.unwrap().replies().push((self.version, 0u8))
            || final(ctx).stream.unwrap().replies() == old(ctx).stream.unwrap().replies(),
//@ end

//@ contract Callback::on_error
    ensures
        old(ctx).stream.is_none() ==> final(ctx).stream.is_none(),
        old(ctx).stream.is_some() ==> final(ctx).stream.is_some() && (
            (exists|code: u8| code != 0 && final(ctx).stream.unwrap().replies() == old(ctx).stream.unwrap().replies().push((self.version, code)))
            || final(ctx).stream.unwrap().replies() == old(ctx).stream.unwrap().replies()),
//@ end
