// Sidecar for unit `socks` (src/common/socks.rs handshake codecs)
// C03: the destination written to / read from the wire is exactly the abstract destination, or the request is refused.
// C06: reply codes: v4 reply 90 <=> cmd == 0; replies are complete and flushed.
// C12: every reader is a function of the byte sequence (the RW contract has no segmentation) and leaves exactly the
//      following bytes unread; truncated input is an error.
// C05: panic freedom of every reader for any input.

impl vstd::std_specs::convert::FromSpecImpl<(u32, u16)> for TargetAddress {
    open spec fn obeys_from_spec() -> bool { true }
    open spec fn from_spec(p: (u32, u16)) -> TargetAddress {
        TargetAddress::SocketAddr(SocketAddr::V4(SocketAddrV4 { ip: Ipv4Addr { bits: p.0 }, port: p.1 }))
    }
}
impl vstd::std_specs::convert::FromSpecImpl<([u8; 16], u16)> for TargetAddress {
    open spec fn obeys_from_spec() -> bool { true }
    open spec fn from_spec(p: ([u8; 16], u16)) -> TargetAddress {
        TargetAddress::SocketAddr(SocketAddr::V6(SocketAddrV6 { ip: Ipv6Addr { octs: p.0 }, port: p.1 }))
    }
}

// ---------------------------------------------------------------- SOCKS5 address field (RFC 1928 section 5)

pub open spec fn s5_repr(v: AddrV) -> bool {
    match v {
        AddrV::NoAddr => false,
        AddrV::Domain(h, _) => h.len() <= 255 && is_utf8(h),
        AddrV::V6(o, _) => o.len() == 16,
        AddrV::V4(_, _) => true,
    }
}

pub open spec fn s5_addr_image(v: AddrV) -> Seq<u8> {
    match v {
        AddrV::NoAddr => Seq::<u8>::empty(),
        AddrV::Domain(h, p) => seq![3u8, h.len() as u8] + h + be16_bytes(p),
        AddrV::V4(ip, p) => seq![1u8] + be32_bytes(ip) + be16_bytes(p),
        AddrV::V6(o, p) => seq![4u8] + o + be16_bytes(p),
    }
}

/// (address, number of bytes it occupies) at the head of b; None = malformed or truncated
pub open spec fn s5_addr_parse(b: Seq<u8>) -> Option<(AddrV, nat)> {
    if b.len() < 1 { None }
    else if b[0] == 1 {
        if b.len() < 7 { None } else { Some((AddrV::V4(be32(b.subrange(1, 5)), be16(b.subrange(5, 7))), 7nat)) }
    } else if b[0] == 4 {
        if b.len() < 19 { None } else { Some((AddrV::V6(b.subrange(1, 17), be16(b.subrange(17, 19))), 19nat)) }
    } else if b[0] == 3 {
        if b.len() < 2 { None } else {
            let n = b[1] as int;
            if b.len() < 4 + n || !is_utf8(b.subrange(2, 2 + n)) { None }
            else { Some((AddrV::Domain(b.subrange(2, 2 + n), be16(b.subrange(2 + n, 4 + n))), (4 + n) as nat)) }
        }
    } else { None }
}

/// C03 round trip for the SOCKS5 address field, with arbitrary bytes following
proof fn lemma_s5_roundtrip(v: AddrV, rest: Seq<u8>)
    requires s5_repr(v),
    ensures s5_addr_parse(s5_addr_image(v) + rest) == Some((v, s5_addr_image(v).len())),
{
    let b = s5_addr_image(v) + rest;
    match v {
        AddrV::NoAddr => {}
        AddrV::Domain(h, p) => {
            let n = h.len() as int;
            assert(b[0] == 3 && b[1] as int == n);
            assert(b.subrange(2, 2 + n) =~= h);
            assert(b.subrange(2 + n, 4 + n) =~= be16_bytes(p));
            lemma_be16_roundtrip(p);
        }
        AddrV::V4(ip, p) => {
            assert(b[0] == 1);
            assert(b.subrange(1, 5) =~= be32_bytes(ip));
            assert(b.subrange(5, 7) =~= be16_bytes(p));
            lemma_be16_roundtrip(p);
            lemma_be32_roundtrip(ip);
        }
        AddrV::V6(o, p) => {
            assert(b[0] == 4);
            assert(b.subrange(1, 17) =~= o);
            assert(b.subrange(17, 19) =~= be16_bytes(p));
            lemma_be16_roundtrip(p);
        }
    }
}

pub open spec fn ends_with(w: Seq<u8>, x: Seq<u8>) -> bool {
    w.len() >= x.len() && w.subrange(w.len() - x.len(), w.len() as int) == x
}

/// the stream only moved forward: some bytes consumed, some bytes appended (quantifier free thanks to pos())
pub open spec fn rw_advanced<IO: RW>(a: IO, b: IO) -> bool {
    &&& b.pos() >= a.pos() && b.pos() - a.pos() <= a.inp().len()
    &&& b.inp() =~= a.inp().skip(b.pos() - a.pos())
    &&& b.written().len() >= a.written().len()
    &&& b.written().take(a.written().len() as int) =~= a.written()
}

// ---------------------------------------------------------------- leaf readers (C12, C03, C05)

//@ contract read_length_and_string
    ensures
        final(io).written() == old(io).written(),
        ret.is_ok() ==> {
            let s = old(io).inp();
            &&& s.len() >= 1 && s.len() >= 1 + s[0]
            &&& string_bytes(ret.unwrap()) == s.subrange(1, 1 + s[0])
            &&& final(io).inp() == s.skip(1 + s[0])
            &&& final(io).pos() == old(io).pos() + 1 + s[0]
        },
//@ end

//@ hint read_length_and_string before `string_from_utf8_ctx(buf)`
    proof {
        let s = old(io).inp();
        assert(s.skip(1).take(len as int) =~= s.subrange(1, 1 + len));
        assert(s.skip(1).skip(len as int) =~= s.skip(1 + len));
    }
//@ end

//@ contract read_null_terminated_string
    ensures
        final(io).written() == old(io).written(),
        // a string is returned only if a terminator was really received; it is exactly the bytes before it
        ret.is_ok() ==> exists|k: int| {
            &&& first_index_of(old(io).inp(), 0u8, k)
            &&& string_bytes(ret.unwrap()) == old(io).inp().take(k)
            &&& final(io).inp() == old(io).inp().skip(k + 1)
            &&& final(io).pos() == old(io).pos() + k + 1
        },
//@ end

//@ hint read_null_terminated_string before `buf.pop()`
    proof {
        let s = old(io).inp();
        let n = buf@.len() as int;
        assert(buf@ =~= s.take(n));
    }
    let ghost buf0 = buf@;
//@ end

//@ hint read_null_terminated_string before `string_from_utf8_ctx(buf)`
    proof {
        let s = old(io).inp();
        let n = buf0.len() as int;
        assert(n >= 1 && buf0[n - 1] == 0);
        assert(s[n - 1] == 0);
        assert(first_index_of(s, 0u8, n - 1));
        assert(buf@ =~= s.take(n - 1));
    }
//@ end

// ---------------------------------------------------------------- SocksResponse (C06, C03, C12)

pub open spec fn v4_reply_code(cmd: u8) -> u8 { if cmd == 0 { 90u8 } else { 91u8 } }

/// SOCKS4 reply as it must appear on the wire: VN=0, CD, DSTPORT, DSTIP
pub open spec fn v4_reply_image(cmd: u8, v: AddrV) -> Seq<u8> {
    match v {
        AddrV::V4(ip, p) => seq![0u8, v4_reply_code(cmd)] + be16_bytes(p) + be32_bytes(ip),
        AddrV::Domain(_, p) => seq![0u8, v4_reply_code(cmd)] + be16_bytes(p) + seq![0u8, 0u8, 0u8, 1u8],
        _ => Seq::<u8>::empty(),
    }
}

//@ contract SocksResponse::read_v4
    ensures
        final(socket).written() == old(socket).written(),
        ret.is_ok() ==> {
            let s = old(socket).inp();
            let r = ret.unwrap();
            &&& s.len() >= 7
            &&& r.version == 4
            // C06: the connector proceeds iff cmd == 0; that must mean exactly "90 = request granted"
            &&& (r.cmd == 0 <==> s[0] == 90)
            &&& ta_view(r.target) == AddrV::V4(be32(s.subrange(3, 7)), be16(s.subrange(1, 3)))
            &&& final(socket).inp() == s.skip(7)
        },
//@ end

//@ hint SocksResponse::read_v4 before `(dst, dport).into()`
        proof {
            let s = old(socket).inp();
            assert(be16(s.skip(1)) == be16(s.subrange(1, 3)));
            assert(be32(s.skip(1).skip(2)) == be32(s.subrange(3, 7)));
            assert(s.skip(1).skip(2).skip(4) =~= s.skip(7));
        }
//@ end

//@ contract SocksResponse::read_v5
    ensures
        final(socket).written() == old(socket).written(),
        ret.is_ok() ==> {
            let s = old(socket).inp();
            let r = ret.unwrap();
            &&& s.len() >= 2
            &&& r.version == 5
            &&& r.cmd == s[0]
            &&& s5_addr_parse(s.skip(2)).is_some()
            &&& ta_view(r.target) == s5_addr_parse(s.skip(2)).unwrap().0
            &&& final(socket).inp() == s.skip(2 + s5_addr_parse(s.skip(2)).unwrap().1 as int)
        },
//@ end

//@ hint SocksResponse::read_v5 before `let target = match`
        let ghost a0 = old(socket).inp().skip(2);
        proof {
            let s = old(socket).inp();
            assert(s.skip(1).skip(1) =~= a0);
            assert(socket.inp() =~= a0.skip(1));
            assert(a0.len() >= 1);
        }
//@ end

//@ hint SocksResponse::read_v5 before `(dst, dport).into()` nth=0
                proof {
                    assert(be32(a0.skip(1)) == be32(a0.subrange(1, 5)));
                    assert(be16(a0.skip(1).skip(4)) == be16(a0.subrange(5, 7)));
                    assert(a0.skip(1).skip(4).skip(2) =~= a0.skip(7));
                    assert(old(socket).inp().skip(9) =~= a0.skip(7));
                }
//@ end

//@ hint SocksResponse::read_v5 before `TargetAddress::DomainPort(domain, dport)`
                proof {
                    let n = a0[1] as int;
                    assert(a0.skip(1).subrange(1, 1 + n) =~= a0.subrange(2, 2 + n));
                    assert(be16(a0.skip(1).skip(1 + n)) == be16(a0.subrange(2 + n, 4 + n)));
                    assert(a0.skip(1).skip(1 + n).skip(2) =~= a0.skip(4 + n));
                    assert(old(socket).inp().skip(2 + 4 + n) =~= a0.skip(4 + n));
                    axiom_string_utf8(domain);
                }
//@ end

//@ hint SocksResponse::read_v5 before `(dst, dport).into()` nth=1
                proof {
                    assert(a0.skip(1).take(16) =~= a0.subrange(1, 17));
                    assert(be16(a0.skip(1).skip(16)) == be16(a0.subrange(17, 19)));
                    assert(a0.skip(1).skip(16).skip(2) =~= a0.skip(19));
                    assert(old(socket).inp().skip(21) =~= a0.skip(19));
                }
//@ end

//@ contract SocksResponse::read_from
    ensures
        final(socket).written() == old(socket).written(),
        ret.is_ok() ==> {
            let s = old(socket).inp();
            let r = ret.unwrap();
            &&& s.len() >= 1 && (s[0] == 0 || s[0] == 5)
            &&& (s[0] == 0 ==> r.version == 4 && s.len() >= 8 && (r.cmd == 0 <==> s[1] == 90)
                    && ta_view(r.target) == AddrV::V4(be32(s.subrange(4, 8)), be16(s.subrange(2, 4)))
                    && final(socket).inp() == s.skip(8))
            &&& (s[0] == 5 ==> r.version == 5 && s.len() >= 3 && r.cmd == s[1]
                    && s5_addr_parse(s.skip(3)).is_some()
                    && ta_view(r.target) == s5_addr_parse(s.skip(3)).unwrap().0
                    && final(socket).inp() == s.skip(3 + s5_addr_parse(s.skip(3)).unwrap().1 as int))
        },
//@ end

//@ hint SocksResponse::read_from before `match version`
        proof {
            let s = old(socket).inp();
            let t = s.skip(1);
            if t.len() >= 7 {
                assert(t.subrange(3, 7) =~= s.subrange(4, 8));
                assert(t.subrange(1, 3) =~= s.subrange(2, 4));
                assert(t.skip(7) =~= s.skip(8));
            }
            if t.len() >= 2 {
                assert(t.skip(2) =~= s.skip(3));
                assert forall|k: int| 0 <= k <= t.len() - 2 implies #[trigger] t.skip(2 + k) =~= s.skip(3 + k) by {}
            }
        }
//@ end

//@ contract SocksResponse::write_v4
    requires
        !(self.target is Unknown),
    ensures
        final(socket).inp() == old(socket).inp(),
        // C06: "granted" (90) is written iff cmd == 0; the reply is the full 8 bytes
        ret.is_ok() ==> final(socket).written() == old(socket).written() + v4_reply_image(self.cmd, ta_view(self.target))
            && v4_reply_image(self.cmd, ta_view(self.target)).len() == 8,
        ta_view(self.target) is V6 ==> ret.is_err(),
//@ end

//@ contract SocksResponse::write_v5
    requires
        !(self.target is Unknown),
    ensures
        final(socket).inp() == old(socket).inp(),
        ret.is_ok() ==> final(socket).written() == old(socket).written()
            + seq![self.version, self.cmd, 0u8] + s5_addr_image(ta_view(self.target)),
        // a reply address that does not fit the length byte is refused, never truncated
        !s5_repr(ta_view(self.target)) ==> ret.is_err(),
//@ end

//@ hint SocksResponse::write_v5 before `domain.vf_as_bytes()`
                proof { axiom_string_utf8(*domain); }
//@ end

//@ contract SocksResponse::write_to
    requires
        !(self.target is Unknown),
    ensures
        final(socket).inp() == old(socket).inp(),
        // a reply that was reported as sent is complete AND flushed
        ret.is_ok() ==> final(socket).flushed_len() == final(socket).written().len(),
        ret.is_ok() && self.version == 4 ==> final(socket).written() == old(socket).written() + v4_reply_image(self.cmd, ta_view(self.target)),
        ret.is_ok() && self.version == 5 ==> final(socket).written() == old(socket).written()
            + seq![self.version, self.cmd, 0u8] + s5_addr_image(ta_view(self.target)),
        ret.is_ok() ==> self.version == 4 || self.version == 5,
//@ end

/// C06 (v4): what write_v4 emits is read back by read_v4 with cmd == 0 exactly when the original cmd was 0
proof fn lemma_v4_reply_roundtrip(cmd: u8, ip: u32, p: u16)
    ensures ({
        let img = v4_reply_image(cmd, AddrV::V4(ip, p));
        &&& img.len() == 8 && img[0] == 0
        &&& (img[1] == 90 <==> cmd == 0)
        &&& be16(img.subrange(2, 4)) == p
        &&& be32(img.subrange(4, 8)) == ip
    }),
{
    let img = v4_reply_image(cmd, AddrV::V4(ip, p));
    assert(img.subrange(2, 4) =~= be16_bytes(p));
    assert(img.subrange(4, 8) =~= be32_bytes(ip));
    lemma_be16_roundtrip(p);
    lemma_be32_roundtrip(ip);
}

// ---------------------------------------------------------------- SocksRequest writers (C03)

/// `data.as_ref().map_or_else(|| Ok("".to_owned()), |(user, _)| Ok(user.to_owned()))` (SOCKS4 user id)
#[verifier::external_body]
pub fn vf_v4_user_id(data: &Option<(String, String)>) -> (r: Result<String, Error>) { unimplemented!() }

//@ contract SocksAuthClient::supported_methods
    ensures ret@ == self.offers(data),
//@ end
// A client is only ever asked to perform a method it offered: `data.as_ref().unwrap()` in PasswordAuth's USRPWD arm
// is safe exactly because USRPWD is offered only with credentials.  write_v5 must establish this from the server's
// method selection (C05: an upstream choosing an un-offered method must be an error, not a crash).
//@ contract SocksAuthClient::auth_v5
    requires
        self.offers(data).contains(method),
    ensures
        ret.is_ok() ==> rw_advanced(*old(socket), *final(socket)),
//@ end

//@ contract SocksAuthServer::auth_v5
    ensures
        ret.is_ok() ==> rw_advanced(*old(socket), *final(socket)),
//@ end

pub open spec fn no_nul(s: Seq<u8>) -> bool { !s.contains(0u8) }

pub open spec fn s4_repr(v: AddrV) -> bool {
    match v {
        AddrV::V4(ip, _) => !(ip < 0x100 && ip != 0),
        AddrV::Domain(h, _) => no_nul(h),
        _ => false,
    }
}

/// SOCKS4 / 4a request: VN CD DSTPORT DSTIP USERID NUL [HOST NUL]
pub open spec fn s4_req_image(ver: u8, cmd: u8, v: AddrV, cid: Seq<u8>) -> Seq<u8> {
    match v {
        AddrV::V4(ip, p) => seq![ver, cmd] + be16_bytes(p) + be32_bytes(ip) + cid + seq![0u8],
        AddrV::Domain(h, p) => seq![ver, cmd] + be16_bytes(p) + seq![0u8, 0u8, 0u8, 1u8] + cid + seq![0u8] + h + seq![0u8],
        _ => Seq::<u8>::empty(),
    }
}

proof fn lemma_v4_marker(ip: u32)
    ensures (ip < 0x100 && ip != 0) <==> ((ip >> 24) as u8 == 0 && ((ip >> 16) & 0xff) as u8 == 0 && ((ip >> 8) & 0xff) as u8 == 0 && (ip & 0xff) as u8 != 0),
{
    assert((ip < 0x100 && ip != 0) <==> ((ip >> 24) as u8 == 0 && ((ip >> 16) & 0xff) as u8 == 0 && ((ip >> 8) & 0xff) as u8 == 0 && (ip & 0xff) as u8 != 0)) by (bit_vector);
}

//@ hint SocksRequest::write_v4 before `v4.octets()`
                    proof { lemma_v4_marker(v4.bits); }
//@ end

//@ contract SocksRequest::write_v4
    ensures
        final(socket).inp() == old(socket).inp(),
        ret.is_ok() ==> exists|cid: Seq<u8>| no_nul(cid)
            && final(socket).written() == old(socket).written() + #[trigger] s4_req_image(self.version, self.cmd, ta_view(self.target), cid),
        // IPv6, a host containing NUL, or an IPv4 address that collides with the 4a marker cannot be sent: refuse
        !s4_repr(ta_view(self.target)) ==> ret.is_err(),
//@ end

//@ contract SocksRequest::write_to
    requires
        !(self.target is Unknown),
    ensures
        ret.is_ok() ==> final(socket).flushed_len() == final(socket).written().len(),
        ret.is_ok() && self.version == 5 ==> ends_with(final(socket).written(), seq![self.version, self.cmd, 0u8] + s5_addr_image(ta_view(self.target))),
        ret.is_ok() && self.version == 5 ==> s5_repr(ta_view(self.target)),
        ret.is_ok() && self.version == 4 ==> s4_repr(ta_view(self.target)),
        ret.is_ok() ==> self.version == 4 || self.version == 5,
//@ end

//@ hint SocksRequest::write_v4 before `slice_contains_u8(cid.vf_as_bytes(), 0)`
        let ghost cidb = string_bytes(cid);
//@ end

//@ hint SocksRequest::write_v4 before `Ok(())`
        proof {
            assert(final_written_matches(socket.written(), old(socket).written(), s4_req_image(self.version, self.cmd, ta_view(self.target), cidb)));
        }
//@ end

pub open spec fn final_written_matches(w: Seq<u8>, w0: Seq<u8>, img: Seq<u8>) -> bool { w =~= w0 + img }

//@ contract SocksRequest::write_v5
    requires
        !(self.target is Unknown),
    ensures
        // the request proper (VER CMD RSV ATYP ADDR PORT) is the last thing written and is the exact image
        ret.is_ok() ==> ends_with(final(socket).written(), seq![self.version, self.cmd, 0u8] + s5_addr_image(ta_view(self.target))),
        !s5_repr(ta_view(self.target)) ==> ret.is_err(),
//@ end

//@ hint SocksRequest::write_v5 before `let mut x = `
                proof { axiom_string_utf8(*domain); }
//@ end

//@ hint SocksRequest::write_v5 before `socket.write_u8(self.version).context("version")?;` nth=1
        let ghost w1 = socket.written();
//@ end

//@ hint SocksRequest::write_v5 before `Ok(())`
        proof {
            let img = seq![self.version, self.cmd, 0u8] + s5_addr_image(ta_view(self.target));
            assert(socket.written() =~= w1 + img);
            assert(socket.written().subrange(socket.written().len() - img.len(), socket.written().len() as int) =~= img);
        }
//@ end

//@ hint PasswordAuthServer::auth_v5 before `Ok(Some((user, pass)))`
                proof {
                    let s = old(socket).inp();
                    let d = socket.pos() - old(socket).pos();
                    assert(socket.inp() =~= s.skip(d));
                    assert(socket.written().take(old(socket).written().len() as int) =~= old(socket).written());
                }
//@ end

// ---------------------------------------------------------------- SocksRequest readers (C03 inbound, C12)

/// NUL-terminated field at the head of b: its length k (bytes before the terminator)
pub open spec fn nul_field(b: Seq<u8>, k: int) -> bool { first_index_of(b, 0u8, k) }

//@ contract SocksAuthServer::auth_v4
    ensures true,
//@ end

//@ contract SocksRequest::read_v4
    ensures
        final(socket).written() == old(socket).written(),
        // SOCKS4 / 4a request after the version byte: CD DSTPORT(2) DSTIP(4) USERID NUL [HOST NUL]
        ret.is_ok() ==> {
            let s = old(socket).inp();
            let r = ret.unwrap();
            &&& s.len() >= 7 && r.version == 4 && r.cmd == s[0]
            &&& exists|k1: int| #[trigger] nul_field(s.skip(7), k1) && {
                    let dst = be32(s.subrange(3, 7));
                    let port = be16(s.subrange(1, 3));
                    if dst != 0 && dst < 0x100 {
                        // 4a: the destination is exactly the bytes between the two terminators
                        exists|k2: int| #[trigger] nul_field(s.skip(8 + k1), k2)
                            && ta_view(r.target) == AddrV::Domain(s.subrange(8 + k1, 8 + k1 + k2), port)
                            && final(socket).inp() == s.skip(9 + k1 + k2)
                    } else {
                        ta_view(r.target) == AddrV::V4(dst, port) && final(socket).inp() == s.skip(8 + k1)
                    }
                }
        },
//@ end

//@ hint SocksRequest::read_v4 before `read_null_terminated_string(socket)` nth=0
        let ghost s0 = old(socket).inp();
        let ghost s7 = socket.inp();
        let ghost p7 = socket.pos();
        proof {
            assert(be16(s0.skip(1)) == be16(s0.subrange(1, 3)));
            assert(be32(s0.skip(1).skip(2)) == be32(s0.subrange(3, 7)));
            assert(s7 =~= s0.skip(7));
        }
//@ end

//@ hint SocksRequest::read_v4 before `let target = if dst != 0 && dst < 0x100 {`
        let ghost k1 = socket.pos() - p7 - 1;
        let ghost s8 = socket.inp();
        let ghost p8 = socket.pos();
        proof {
            assert(nul_field(s7, k1));
            assert(s8 =~= s0.skip(8 + k1));
        }
//@ end

//@ hint SocksRequest::read_v4 before `TargetAddress::DomainPort(domain, dport)`
            proof {
                let k2 = socket.pos() - p8 - 1;
                assert(nul_field(s8, k2));
                assert(s8.take(k2) =~= s0.subrange(8 + k1, 8 + k1 + k2));
                assert(socket.inp() =~= s0.skip(9 + k1 + k2));
            }
//@ end

//@ contract SocksRequest::read_v5
    ensures
        // after the method negotiation and the authentication exchange (whatever they consumed), the request
        // VER CMD RSV ATYP DST.ADDR DST.PORT is parsed exactly and exactly its bytes are consumed
        ret.is_ok() ==> exists|a: int| 0 <= a && a + 3 <= old(socket).inp().len() && {
            let q = #[trigger] old(socket).inp().skip(a);
            let r = ret.unwrap();
            &&& r.version == q[0] && r.cmd == q[1]
            &&& s5_addr_parse(q.skip(3)).is_some()
            &&& ta_view(r.target) == s5_addr_parse(q.skip(3)).unwrap().0
            &&& final(socket).inp() == q.skip(3 + s5_addr_parse(q.skip(3)).unwrap().1 as int)
        },
//@ end

//@ hint SocksRequest::read_v5 before `let version = socket.read_u8().context("read version")?;`
        let ghost s0 = old(socket).inp();
        let ghost a = socket.pos() - old(socket).pos();
        let ghost q = socket.inp();
        proof {
            // everything so far only moved the stream forward: q is s0 minus the a bytes consumed
            assert(q =~= s0.skip(a));
        }
//@ end

//@ hint SocksRequest::read_v5 before `let target = match`
        let ghost a0 = q.skip(3);
        proof {
            assert(q.skip(1).skip(1).skip(1) =~= a0);
            assert(socket.inp() =~= a0.skip(1));
            assert(a0.len() >= 1);
        }
//@ end

//@ hint SocksRequest::read_v5 before `(dst, dport).into()` nth=0
                proof {
                    assert(be32(a0.skip(1)) == be32(a0.subrange(1, 5)));
                    assert(be16(a0.skip(1).skip(4)) == be16(a0.subrange(5, 7)));
                    assert(socket.inp() =~= a0.skip(7));
                    assert(q.skip(10) =~= a0.skip(7));
                }
//@ end

//@ hint SocksRequest::read_v5 before `TargetAddress::DomainPort(domain, dport)`
                proof {
                    let n = a0[1] as int;
                    assert(a0.skip(1).subrange(1, 1 + n) =~= a0.subrange(2, 2 + n));
                    assert(be16(a0.skip(1).skip(1 + n)) == be16(a0.subrange(2 + n, 4 + n)));
                    assert(socket.inp() =~= a0.skip(4 + n));
                    assert(q.skip(3 + 4 + n) =~= a0.skip(4 + n));
                    axiom_string_utf8(domain);
                }
//@ end

//@ hint SocksRequest::read_v5 before `(dst, dport).into()` nth=1
                proof {
                    assert(a0.skip(1).take(16) =~= a0.subrange(1, 17));
                    assert(be16(a0.skip(1).skip(16)) == be16(a0.subrange(17, 19)));
                    assert(socket.inp() =~= a0.skip(19));
                    assert(q.skip(22) =~= a0.skip(19));
                }
//@ end
