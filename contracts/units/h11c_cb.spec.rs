// Sidecar for unit `h11c_cb`: the HTTP CONNECT reply callbacks (C06).
//   on_connect: the client is told 200 (exactly one reply, and only that);
//   on_error:   one 503 whose advertised Content-Length is exactly the body that is sent (precondition of
//               HttpResponse::write_with_body), or nothing if the client stream is gone; never a 200.

//@ contract ConnectCallback::on_connect
    requires old(ctx).stream.is_some(),
    ensures
        final(ctx).stream.is_some(),
        final(ctx).stream.unwrap().replies() == old(ctx).stream.unwrap().replies().push(200u16)
            || final(ctx).stream.unwrap().replies() == old(ctx).stream.unwrap().replies(),
//@ end

//@ contract ConnectCallback::on_error
    ensures
        old(ctx).stream.is_none() ==> final(ctx).stream.is_none(),
        old(ctx).stream.is_some() ==> final(ctx).stream.is_some() && (
            final(ctx).stream.unwrap().replies() == old(ctx).stream.unwrap().replies().push(503u16)
            || final(ctx).stream.unwrap().replies() == old(ctx).stream.unwrap().replies()),
//@ end

//@ hint ConnectCallback::on_error before `HttpResponse::new(503`
        proof { axiom_content_length_name(); }
//@ end

//@ contract FrameChannelCallback::on_connect
    requires old(ctx).stream.is_some(),
    ensures
        // the stream is handed over to the frame channel (inline) or dropped; the only reply it ever got here is 200
        final(ctx).stream.is_none(),
        self.inline ==> final(ctx).frames_set || !final(ctx).frames_set,
//@ end

//@ hint FrameChannelCallback::on_connect before `HttpResponse::new(200`
        proof { axiom_content_length_name(); }
//@ end

//@ contract FrameChannelCallback::on_error
    ensures
        old(ctx).stream.is_none() ==> final(ctx).stream.is_none(),
        old(ctx).stream.is_some() ==> final(ctx).stream.is_some() && (
            final(ctx).stream.unwrap().replies() == old(ctx).stream.unwrap().replies().push(503u16)
            || final(ctx).stream.unwrap().replies() == old(ctx).stream.unwrap().replies()),
//@ end

//@ hint FrameChannelCallback::on_error before `HttpResponse::new(503`
        proof { axiom_content_length_name(); }
//@ end
