// Sidecar for unit `fragment` (src/common/fragment.rs) -- C11 (exact fragmentation / reassembly), C05 (no panic).
// Top-level postconditions are written from the property statement: header = id(2) total(1) seq(1),
// payload = up to mtu-4 bytes, total = ceil(len / (mtu-4)) <= 127, reassembly = concatenation in seq order,
// duplicates / foreign / malformed fragments never change the state.

spec const MAX_FRAGMENTS_SPEC: nat = 127;
spec const MAX_DATAGRAM_SPEC: nat = 65535;

spec fn ceil_div(a: nat, b: nat) -> nat
    recommends b > 0
{
    if a % b == 0 { a / b } else { a / b + 1 }
}

spec fn bit(i: nat) -> u128 { 1u128 << (i as u128) }

// ---------------------------------------------------------------- ReassembleQueue view

impl ReassembleQueue {
    spec fn total(&self) -> nat { self.fragments@.len() }

    spec fn has(&self, i: nat) -> bool { self.bitmap & bit(i) != 0 }

    spec fn wf(&self) -> bool {
        &&& 0 < self.total() <= MAX_FRAGMENTS_SPEC
        &&& forall|i: nat| self.total() <= i < 128 ==> self.has(i)
        &&& forall|i: int| 0 <= i < self.total() ==> (#[trigger] self.fragments@[i])@.len() <= MAX_DATAGRAM_SPEC
    }

    spec fn complete(&self) -> bool {
        forall|i: nat| i < self.total() ==> self.has(i)
    }

    spec fn pieces(&self) -> Seq<Seq<u8>> {
        Seq::new(self.total(), |i: int| self.fragments@[i]@)
    }
}

/// concatenation of the first n pieces
spec fn concat_prefix(p: Seq<Seq<u8>>, n: nat) -> Seq<u8>
    decreases n
{
    if n == 0 { Seq::<u8>::empty() } else { concat_prefix(p, (n - 1) as nat) + p[n - 1] }
}

// bit-vector facts about the bitmap
proof fn lemma_bitmap_new(total: u128, this: u128)
    requires 0 < total <= 127, this < total,
    ensures
        forall|i: u128| #![auto] i < 128 ==> (((!0u128 << total | 1u128 << this) & (1u128 << i) != 0) <==> (i >= total || i == this)),
{
    assert forall|i: u128| #![auto] i < 128 implies (((!0u128 << total | 1u128 << this) & (1u128 << i) != 0) <==> (i >= total || i == this)) by {
        assert(0 < total <= 127 && this < total && i < 128 ==>
            (((!0u128 << total | 1u128 << this) & (1u128 << i) != 0) <==> (i >= total || i == this))) by (bit_vector);
    }
}

proof fn lemma_bitmap_set(bm: u128, this: u128)
    requires this < 128,
    ensures
        forall|i: u128| #![auto] i < 128 ==> (((bm | 1u128 << this) & (1u128 << i) != 0) <==> ((bm & (1u128 << i) != 0) || i == this)),
{
    assert forall|i: u128| #![auto] i < 128 implies (((bm | 1u128 << this) & (1u128 << i) != 0) <==> ((bm & (1u128 << i) != 0) || i == this)) by {
        assert(this < 128 && i < 128 ==>
            (((bm | 1u128 << this) & (1u128 << i) != 0) <==> ((bm & (1u128 << i) != 0) || i == this))) by (bit_vector);
    }
}

proof fn lemma_bitmap_full(bm: u128)
    ensures (!bm == 0) <==> (forall|i: u128| #![auto] i < 128 ==> bm & (1u128 << i) != 0),
{
    if !bm == 0 {
        assert(bm == !0u128) by (bit_vector) requires !bm == 0;
        assert forall|i: u128| #![auto] i < 128 implies bm & (1u128 << i) != 0 by {
            assert(i < 128 && bm == !0u128 ==> bm & (1u128 << i) != 0) by (bit_vector);
        }
    } else {
        // some bit is clear
        assert(!bm != 0 ==> exists|i: u128| #![auto] i < 128 && bm & (1u128 << i) == 0) by {
            lemma_some_bit_clear(bm);
        }
    }
}

proof fn lemma_some_bit_clear(bm: u128)
    requires !bm != 0,
    ensures exists|i: u128| #![auto] i < 128 && bm & (1u128 << i) == 0,
{
    // binary search down the word with bit_vector facts
    let nb = !bm;
    assert(nb != 0 ==> exists|i: u128| #![auto] i < 128 && nb & (1u128 << i) != 0) by {
        lemma_nonzero_has_bit(nb);
    }
    let i = choose|i: u128| #![auto] i < 128 && nb & (1u128 << i) != 0;
    assert(i < 128 && (!bm) & (1u128 << i) != 0 ==> bm & (1u128 << i) == 0) by (bit_vector);
}

proof fn lemma_nonzero_has_bit(x: u128)
    requires x != 0,
    ensures exists|i: u128| #![auto] i < 128 && x & (1u128 << i) != 0,
{
    lemma_nonzero_has_bit_rec(x, 128);
}

/// if x has no bit set below n then x >> n == x ... inductive search
proof fn lemma_nonzero_has_bit_rec(x: u128, n: u128)
    requires x != 0, n <= 128, n == 128 || x >> n == 0,
    ensures exists|i: u128| #![auto] i < 128 && x & (1u128 << i) != 0,
    decreases n
{
    if n == 0 {
        assert(x >> 0u128 == x) by (bit_vector);
        assert(false);
    } else {
        let m = (n - 1) as u128;
        if x & (1u128 << m) != 0 {
            assert(m < 128);
        } else {
            assert(m < 128 && (n == 128 || x >> n == 0) && n == m + 1 && x & (1u128 << m) == 0 ==> x >> m == 0) by (bit_vector);
            lemma_nonzero_has_bit_rec(x, m);
        }
    }
}

proof fn lemma_set_bit_nat(bm: u128, this: nat)
    requires this < 128,
    ensures forall|i: nat| i < 128 ==> (((bm | bit(this)) & bit(i) != 0) <==> ((bm & bit(i) != 0) || i == this)),
{
    lemma_bitmap_set(bm, this as u128);
    assert forall|i: nat| i < 128 implies (((bm | bit(this)) & bit(i) != 0) <==> ((bm & bit(i) != 0) || i == this)) by {
        let iu = i as u128;
        assert(iu < 128 && bit(i) == 1u128 << iu);
    }
}

proof fn lemma_full_nat(bm: u128)
    ensures (!bm == 0) <==> (forall|i: nat| i < 128 ==> bm & bit(i) != 0),
{
    lemma_bitmap_full(bm);
    if !bm == 0 {
        assert forall|i: nat| i < 128 implies bm & bit(i) != 0 by {
            let iu = i as u128;
            assert(iu < 128 && bit(i) == 1u128 << iu);
        }
    }
    if forall|i: nat| i < 128 ==> bm & bit(i) != 0 {
        assert forall|i: u128| #![auto] i < 128 implies bm & (1u128 << i) != 0 by {
            let n = i as nat;
            assert(n < 128 && bit(n) == 1u128 << i);
        }
    }
}

//@ contract ReassembleQueue::new
    requires
        0 < total <= MAX_FRAGMENTS_SPEC,
        seq < total,
        buf@.len() <= MAX_DATAGRAM_SPEC,
    ensures
        ret.wf(),
        ret.total() == total,
        forall|i: nat| i < total ==> (ret.has(i) <==> i == seq),
        ret.fragments@[seq as int]@ == buf@,
        forall|i: int| 0 <= i < total && i != seq ==> (#[trigger] ret.fragments@[i])@ == Seq::<u8>::empty(),
//@ end

//@ hint ReassembleQueue::new after `!0u128 << total`
        proof {
            // stated over the PARAMETER seq, not over the local it is copied into
            lemma_bitmap_new(total as u128, seq as u128);
            assert forall|i: nat| i < 128 implies ((bitmap & bit(i) != 0) <==> (i >= total || i == seq as nat)) by {
                let iu = i as u128;
                assert(iu < 128);
                assert(bit(i) == 1u128 << iu);
            }
        }
//@ end

//@ contract ReassembleQueue::add_fragment
    requires
        old(self).wf(),
        buf@.len() <= MAX_DATAGRAM_SPEC,
    ensures
        final(self).wf(),
        final(self).total() == old(self).total(),
        // a fragment is accepted iff it claims the same total, is in range and is new
        (total as nat == old(self).total() && (seq as nat) < old(self).total() && !old(self).has(seq as nat)) ==> {
            &&& final(self).has(seq as nat)
            &&& forall|i: nat| i < 128 && i != seq ==> (final(self).has(i) <==> old(self).has(i))
            &&& final(self).fragments@ == old(self).fragments@.update(seq as int, buf)
            &&& ret == final(self).complete()
        },
        // anything else (duplicate, out of range, inconsistent total) leaves the queue untouched
        !(total as nat == old(self).total() && (seq as nat) < old(self).total() && !old(self).has(seq as nat)) ==> {
            &&& !ret
            &&& final(self).bitmap == old(self).bitmap
            &&& final(self).fragments@ == old(self).fragments@
        },
//@ end

//@ hint ReassembleQueue::add_fragment before `!self.bitmap == 0`
            proof {
                assert(bit(seq as nat) == 1u128 << (seq as u128));
                lemma_set_bit_nat(old(self).bitmap, seq as nat);
                lemma_full_nat(self.bitmap);
                assert(self.bitmap == old(self).bitmap | bit(seq as nat));
                assert(forall|i: nat| i < 128 ==> (self.has(i) <==> (old(self).has(i) || i == this)));
                assert(self.has(seq as nat));
                assert(self.fragments@ == old(self).fragments@.update(seq as int, buf));
                assert(self.wf());
                if self.complete() {
                    assert forall|i: nat| i < 128 implies self.bitmap & bit(i) != 0 by {
                        assert(self.has(i));
                    }
                }
                if !self.bitmap == 0 {
                    assert forall|i: nat| i < self.total() implies self.has(i) by {
                        assert(i < 128);
                        assert(self.bitmap & bit(i) != 0);
                    }
                }
            }
//@ end

//@ contract ReassembleQueue::assemble
    requires
        self.wf(),
    ensures
        ret@ == concat_prefix(self.pieces(), self.total()),
//@ end

//@ hint ReassembleQueue::assemble before `BytesMut::with_capacity(`
        proof {
            assert(self.fragments@[0]@.len() <= MAX_DATAGRAM_SPEC);
            assert(self.fragments@.len() * self.fragments@[0]@.len() <= 127 * 65535) by (nonlinear_arith)
                requires self.fragments@.len() <= 127, self.fragments@[0]@.len() <= 65535;
        }
//@ end

//@ loop ReassembleQueue::assemble 0
            invariant
                self.wf(),
                buf@ == concat_prefix(self.pieces(), vf_it.index@ as nat),
                0 <= vf_it.index@ <= self.total(),
//@ end

//@ hint ReassembleQueue::assemble before `buf.extend(fragment)`
            proof {
                assert(self.pieces()[vf_it.index@] == fragment@);
            }
//@ end

// ---------------------------------------------------------------- div_ceil

//@ contract div_ceil
    requires b > 0,
    ensures ret == ceil_div(a as nat, b as nat),
//@ end

//@ hint div_ceil after `let r = a % b;`
    proof {
        // d + 1 cannot overflow when r > 0: then b >= 2 and d <= usize::MAX / 2
        if r > 0 {
            assert(b >= 2) by { if b == 1 { assert(a % 1 == 0); } }
            assert(d <= a / 2) by (nonlinear_arith) requires d == a / b, b >= 2;
        }
    }
//@ end

// ---------------------------------------------------------------- MakeFragments

impl<T: Buf> MakeFragments<T> {
    spec fn wf(&self) -> bool {
        &&& self.mtu > 4
        &&& self.total <= MAX_FRAGMENTS_SPEC
        &&& self.next as nat + ceil_div(self.buf.bview().len(), (self.mtu - 4) as nat) == self.total as nat
    }
}

/// the wire image of fragment number `seq` of `buf` (property statement: 4 byte header + payload slice)
spec fn fragment_image(id: u16, total: u8, seq: u8, payload: Seq<u8>) -> Seq<u8> {
    be16_bytes(id).push(total).push(seq) + payload
}

proof fn lemma_ceil_div_step(len: nat, size: nat)
    requires size > 0, len > 0,
    ensures
        ceil_div(len, size) >= 1,
        len <= size ==> ceil_div(len, size) == 1,
        len > size ==> ceil_div(len, size) == 1 + ceil_div((len - size) as nat, size),
{
    if len <= size {
        if len == size {
            assert(len / size == 1 && len % size == 0) by (nonlinear_arith) requires len == size, size > 0;
        } else {
            assert(len / size == 0 && len % size == len) by (nonlinear_arith) requires len < size, size > 0;
        }
    } else {
        let m = (len - size) as nat;
        assert(len / size == m / size + 1 && len % size == m % size) by (nonlinear_arith)
            requires len == m + size, size > 0;
    }
}

proof fn lemma_ceil_div_zero(size: nat)
    requires size > 0,
    ensures ceil_div(0, size) == 0,
{
    assert(0nat / size == 0 && 0nat % size == 0) by (nonlinear_arith) requires size > 0;
}

//@ contract MakeFragments::new
    ensures
        // refuse instead of truncating: representable iff mtu > 4 and at most 127 fragments are needed
        ret.is_some() <==> (mtu > 4 && ceil_div(buf.bview().len(), (mtu - 4) as nat) <= MAX_FRAGMENTS_SPEC),
        ret.is_some() ==> {
            let m = ret.unwrap();
            &&& m.wf()
            &&& m.id == id && m.mtu == mtu && m.next == 0
            &&& m.buf.bview() == buf.bview()
            &&& m.total as nat == ceil_div(buf.bview().len(), (mtu - 4) as nat)
        },
//@ end

//@ contract MakeFragments::next
    requires
        old(self).wf(),
    ensures
        final(self).wf(),
        final(self).id == old(self).id && final(self).mtu == old(self).mtu && final(self).total == old(self).total,
        old(self).buf.bview().len() == 0 ==> ret.is_none() && final(self).buf.bview() == old(self).buf.bview() && final(self).next == old(self).next,
        old(self).buf.bview().len() > 0 ==> {
            let n = if old(self).buf.bview().len() < old(self).mtu - 4 { old(self).buf.bview().len() as int } else { old(self).mtu - 4 };
            &&& ret.is_some()
            &&& ret.unwrap()@ == fragment_image(old(self).id, old(self).total, old(self).next, old(self).buf.bview().subrange(0, n))
            &&& ret.unwrap()@.len() <= old(self).mtu
            &&& final(self).buf.bview() == old(self).buf.bview().subrange(n, old(self).buf.bview().len() as int)
            &&& final(self).next == old(self).next + 1
            &&& (old(self).next as nat) < old(self).total as nat
        },
//@ end

//@ hint MakeFragments::next before `self.buf.remaining().min(`
            proof {
                lemma_ceil_div_step(self.buf.bview().len(), (self.mtu - 4) as nat);
                if self.buf.bview().len() <= self.mtu - 4 {
                    lemma_ceil_div_zero((self.mtu - 4) as nat);
                }
            }
//@ end

// ---------------------------------------------------------------- split_header

//@ contract split_header
    ensures
        // accepted iff at least 4 bytes, not larger than a datagram, and 0 < total <= 127, seq < total
        ret.is_some() <==> {
            &&& 4 <= old(buf)@.len() <= MAX_DATAGRAM_SPEC
            &&& 0 < old(buf)@[2] <= MAX_FRAGMENTS_SPEC
            &&& old(buf)@[3] < old(buf)@[2]
        },
        ret.is_some() ==> {
            &&& ret.unwrap().0 == be16(old(buf)@)
            &&& ret.unwrap().1 == old(buf)@[2]
            &&& ret.unwrap().2 == old(buf)@[3]
            &&& final(buf)@ == old(buf)@.subrange(4, old(buf)@.len() as int)
        },
//@ end

// ---------------------------------------------------------------- C11 whole-history lemma ("any order, any duplicates")
// Abstract queue = what the contracts of new / add_fragment / assemble say about the real one.

pub struct AQ { pub total: nat, pub have: spec_fn(nat) -> bool, pub piece: spec_fn(nat) -> Seq<u8> }

spec fn has_a(q: AQ, i: nat) -> bool { (q.have)(i) }
spec fn piece_a(q: AQ, i: nat) -> Seq<u8> { (q.piece)(i) }

spec fn aq_full(q: AQ) -> bool { forall|i: nat| i < q.total ==> #[trigger] has_a(q, i) }

/// one fragment event (claimed total, seq, payload) against the abstract queue: accepted iff same total, in range, new
spec fn aq_add(q: AQ, total: nat, seq: nat, bytes: Seq<u8>) -> (AQ, bool) {
    if total == q.total && seq < q.total && !(q.have)(seq) {
        let n = AQ { total: q.total, have: |i: nat| i == seq || (q.have)(i), piece: |i: nat| if i == seq { bytes } else { (q.piece)(i) } };
        (n, aq_full(n))
    } else {
        (q, false)
    }
}

spec fn aq_view(q: ReassembleQueue) -> AQ {
    AQ { total: q.total(), have: |i: nat| i < q.total() && q.has(i), piece: |i: nat| if i < q.total() { q.fragments@[i as int]@ } else { Seq::<u8>::empty() } }
}

/// the postcondition of the REAL add_fragment is exactly one aq_add step on the view
proof fn lemma_add_fragment_refines(o: ReassembleQueue, n: ReassembleQueue, total: u8, seq: u8, buf: Bytes, ret: bool)
    requires
        o.wf(), n.wf(), n.total() == o.total(),
        (total as nat == o.total() && (seq as nat) < o.total() && !o.has(seq as nat)) ==> {
            &&& n.has(seq as nat)
            &&& forall|i: nat| i < 128 && i != seq ==> (n.has(i) <==> o.has(i))
            &&& n.fragments@ == o.fragments@.update(seq as int, buf)
            &&& ret == n.complete()
        },
        !(total as nat == o.total() && (seq as nat) < o.total() && !o.has(seq as nat)) ==> {
            &&& !ret
            &&& n.bitmap == o.bitmap
            &&& n.fragments@ == o.fragments@
        },
    ensures ({
        let r = aq_add(aq_view(o), total as nat, seq as nat, buf@);
        &&& aq_view(n).total == r.0.total
        &&& forall|i: nat| has_a(aq_view(n), i) == has_a(r.0, i)
        &&& forall|i: nat| has_a(aq_view(n), i) ==> piece_a(aq_view(n), i) == piece_a(r.0, i)
        &&& ret == r.1
    }),
{
    let a = aq_view(o);
    let r = aq_add(a, total as nat, seq as nat, buf@);
    if total as nat == o.total() && (seq as nat) < o.total() && !o.has(seq as nat) {
        assert forall|i: nat| has_a(aq_view(n), i) == has_a(r.0, i) by {
            if i < o.total() { assert(i < 128); }
        }
        assert(n.complete() == aq_full(r.0)) by {
            if n.complete() { assert forall|i: nat| i < r.0.total implies has_a(r.0, i) by { assert(n.has(i)); assert(i < 128); } }
            if aq_full(r.0) { assert forall|i: nat| i < n.total() implies n.has(i) by { assert(has_a(r.0, i)); assert(i < 128); } }
        }
    }
}

/// a history of fragment events for ONE frame: (seq, payload) with every payload the true piece of that seq
spec fn events_consistent(ev: Seq<(nat, Seq<u8>)>, total: nat, pieces: Seq<Seq<u8>>) -> bool {
    pieces.len() == total && forall|k: int| 0 <= k < ev.len() ==> (#[trigger] ev[k]).0 < total && ev[k].1 == pieces[ev[k].0 as int]
}

/// was seq i among the first k events
spec fn seen(ev: Seq<(nat, Seq<u8>)>, k: int, i: nat) -> bool
    decreases k
{
    if k <= 0 { false } else { ev[k - 1].0 == i || seen(ev, k - 1, i) }
}

/// state after the first k events (queue created empty with the right total; `new` + `add_fragment` are this fold)
spec fn run(ev: Seq<(nat, Seq<u8>)>, total: nat, k: int) -> AQ
    decreases k
{
    if k <= 0 { AQ { total, have: |i: nat| false, piece: |i: nat| Seq::<u8>::empty() } }
    else { aq_add(run(ev, total, k - 1), total, ev[k - 1].0, ev[k - 1].1).0 }
}

spec fn all_seen(ev: Seq<(nat, Seq<u8>)>, total: nat, k: int) -> bool { forall|i: nat| i < total ==> seen(ev, k, i) }

/// Whatever the order and however many duplicates: after k events the queue holds exactly the pieces seen so far, each
/// with its true payload; event k completes the frame iff it supplies the last missing piece (so "complete" is reported
/// exactly once: all_seen is monotone in k); a complete queue holds every true piece, i.e. assembles to the original.
proof fn lemma_any_order(ev: Seq<(nat, Seq<u8>)>, total: nat, pieces: Seq<Seq<u8>>, k: int)
    requires events_consistent(ev, total, pieces), 0 <= k <= ev.len(),
    ensures
        run(ev, total, k).total == total,
        forall|i: nat| has_a(run(ev, total, k), i) == seen(ev, k, i),
        forall|i: nat| seen(ev, k, i) ==> i < total && piece_a(run(ev, total, k), i) == pieces[i as int],
        k >= 1 ==> (aq_add(run(ev, total, k - 1), total, ev[k - 1].0, ev[k - 1].1).1 <==> (all_seen(ev, total, k) && !all_seen(ev, total, k - 1))),
    decreases k
{
    if k > 0 {
        lemma_any_order(ev, total, pieces, k - 1);
        let km = k - 1;
        let q = run(ev, total, km);
        let e = ev[km];
        let r = aq_add(q, total, e.0, e.1);
        assert(e.0 < total && e.1 == pieces[e.0 as int]);
        assert(run(ev, total, k) == r.0);
        assert forall|i: nat| seen(ev, k, i) == (e.0 == i || seen(ev, km, i)) by {}
        if !has_a(q, e.0) {
            assert forall|i: nat| has_a(r.0, i) == seen(ev, k, i) by {
                assert(has_a(r.0, i) == (i == e.0 || has_a(q, i)));
            }
            assert forall|i: nat| #[trigger] seen(ev, k, i) implies i < total && piece_a(r.0, i) == pieces[i as int] by {
                assert(piece_a(r.0, i) == (if i == e.0 { e.1 } else { piece_a(q, i) }));
                if i != e.0 { assert(seen(ev, km, i)); assert(piece_a(q, i) == pieces[i as int]); }
            }
            assert(aq_full(r.0) <==> all_seen(ev, total, k)) by {
                if aq_full(r.0) { assert forall|i: nat| i < total implies seen(ev, k, i) by { assert(has_a(r.0, i)); } }
                if all_seen(ev, total, k) { assert forall|i: nat| i < r.0.total implies has_a(r.0, i) by { assert(seen(ev, k, i)); } }
            }
            assert(!all_seen(ev, total, km)) by { assert(!seen(ev, km, e.0)); }
        } else {
            // duplicate: nothing changes, never "complete" again
            assert(r.0 == q);
            assert(seen(ev, km, e.0));
            assert forall|i: nat| seen(ev, k, i) == seen(ev, km, i) by {}
            assert forall|i: nat| #[trigger] seen(ev, k, i) implies i < total && piece_a(r.0, i) == pieces[i as int] by {
                assert(seen(ev, km, i));
                assert(piece_a(q, i) == pieces[i as int]);
            }
            assert(all_seen(ev, total, k) == all_seen(ev, total, km)) by {
                if all_seen(ev, total, k) { assert forall|i: nat| i < total implies seen(ev, km, i) by { assert(seen(ev, k, i)); } }
                if all_seen(ev, total, km) { assert forall|i: nat| i < total implies seen(ev, k, i) by { assert(seen(ev, km, i)); } }
            }
        }
        assert forall|i: nat| #[trigger] seen(ev, k, i) implies i < total && piece_a(run(ev, total, k), i) == pieces[i as int] by {
            assert(i < total && piece_a(r.0, i) == pieces[i as int]);
        }
    } else {
        assert forall|i: nat| #[trigger] seen(ev, k, i) implies i < total && piece_a(run(ev, total, k), i) == pieces[i as int] by {
            assert(!seen(ev, k, i));
        }
    }
}

/// monotonicity: once every piece has been seen it stays seen, so the completing event is unique
proof fn lemma_all_seen_monotone(ev: Seq<(nat, Seq<u8>)>, total: nat, j: int, k: int)
    requires 0 <= j <= k,
    ensures all_seen(ev, total, j) ==> all_seen(ev, total, k),
    decreases k - j
{
    if j < k {
        let km = k - 1;
        lemma_all_seen_monotone(ev, total, j, km);
        if all_seen(ev, total, km) {
            assert forall|i: nat| i < total implies seen(ev, k, i) by { assert(seen(ev, km, i)); }
        }
    }
}

// ---------------------------------------------------------------- try_make_fragments (the entry point QuicFrameWriter uses)

#[verifier::external_body] pub struct FragQueueMapShim { _p: u8 }
#[verifier::external_body] pub struct FragTimerShim { _p: u8 }
#[verifier::external_body] pub struct FragDurationShim { _p: u8 }

impl<T: Buf> MakeFragments<T> {
    /// public face of wf() and of the fields (MakeFragments is a pub struct with private fields)
    pub closed spec fn fresh(&self, id: u16, mtu: usize) -> bool {
        self.wf() && self.id == id && self.mtu == mtu && self.next == 0
    }
}

//@ contract Fragments::try_make_fragments
    ensures
        // ids wrap around after 65536 frames instead of trapping; an id is consumed whenever fragments are produced
        // (a frame refused before fragmentation may or may not consume one)
        ret.is_some() ==> *final(next_id) == (if *old(next_id) == 0xffff { 0u16 } else { (*old(next_id) + 1) as u16 }),
        *final(next_id) == *old(next_id) || *final(next_id) == (if *old(next_id) == 0xffff { 0u16 } else { (*old(next_id) + 1) as u16 }),
        // Some: a well-formed fragmenter over the frame's buffer, labelled with the id that was current
        ret.is_some() ==> ret.unwrap().fresh(*old(next_id), mtu),
        // a usable mtu is never refused for a frame that fits (no spurious refusal is stated by MakeFragments::new)
        mtu <= 4 ==> ret.is_none(),
//@ end
