// Sidecar for unit `socks_udp`: the SOCKS5 UDP request header codec (RFC 1928 section 7)
//   RSV(2) FRAG(1) ATYP(1) DST.ADDR DST.PORT DATA      (this code writes VER CMD 0 in the first three bytes)
// C10: decode(encode(f)) == f on (address, payload); C03: an address that does not fit is refused; C05: no panic.

impl vstd::std_specs::convert::FromSpecImpl<(u32, u16)> for TargetAddress {
    open spec fn obeys_from_spec() -> bool { true }
    open spec fn from_spec(p: (u32, u16)) -> TargetAddress {
        TargetAddress::SocketAddr(SocketAddr::V4(SocketAddrV4 { ip: Ipv4Addr { bits: p.0 }, port: p.1 }))
    }
}
impl vstd::std_specs::convert::FromSpecImpl<([u8; 16], u16)> for TargetAddress {
    open spec fn obeys_from_spec() -> bool { true }
    open spec fn from_spec(p: ([u8; 16], u16)) -> TargetAddress {
        TargetAddress::SocketAddr(SocketAddr::V6(SocketAddrV6 { ip: Ipv6Addr { octs: p.0 }, port: p.1 }))
    }
}
impl vstd::std_specs::convert::FromSpecImpl<(String, u16)> for TargetAddress {
    open spec fn obeys_from_spec() -> bool { true }
    open spec fn from_spec(p: (String, u16)) -> TargetAddress { TargetAddress::DomainPort(p.0, p.1) }
}

pub open spec fn s5_repr(v: AddrV) -> bool {
    match v {
        AddrV::NoAddr => false,
        AddrV::Domain(h, _) => h.len() <= 255 && is_utf8(h),
        AddrV::V6(o, _) => o.len() == 16,
        AddrV::V4(_, _) => true,
    }
}

pub open spec fn s5_addr_image(v: AddrV) -> Seq<u8> {
    match v {
        AddrV::NoAddr => Seq::<u8>::empty(),
        AddrV::Domain(h, p) => seq![3u8, h.len() as u8] + h + be16_bytes(p),
        AddrV::V4(ip, p) => seq![1u8] + be32_bytes(ip) + be16_bytes(p),
        AddrV::V6(o, p) => seq![4u8] + o + be16_bytes(p),
    }
}

/// (address, number of bytes it occupies) at the head of b; None = malformed or truncated
pub open spec fn s5_addr_parse(b: Seq<u8>) -> Option<(AddrV, nat)> {
    if b.len() < 1 { None }
    else if b[0] == 1 {
        if b.len() < 7 { None } else { Some((AddrV::V4(be32(b.subrange(1, 5)), be16(b.subrange(5, 7))), 7nat)) }
    } else if b[0] == 4 {
        if b.len() < 19 { None } else { Some((AddrV::V6(b.subrange(1, 17), be16(b.subrange(17, 19))), 19nat)) }
    } else if b[0] == 3 {
        if b.len() < 2 { None } else {
            let n = b[1] as int;
            if b.len() < 4 + n || !is_utf8(b.subrange(2, 2 + n)) { None }
            else { Some((AddrV::Domain(b.subrange(2, 2 + n), be16(b.subrange(2 + n, 4 + n))), (4 + n) as nat)) }
        }
    } else { None }
}

/// the datagram a SOCKS5 UDP relay must emit for (address, payload)
pub open spec fn udp_image(v: AddrV, payload: Seq<u8>) -> Seq<u8> {
    seq![5u8, 3u8, 0u8] + s5_addr_image(v) + payload
}

//@ contract decode_socks_frame
    ensures
        // accepted iff at least the 3 header bytes and a well-formed, complete address follow
        ret.is_ok() <==> (frame.body@.len() >= 4 && s5_addr_parse(frame.body@.skip(3)).is_some()),
        ret.is_ok() ==> {
            let p = s5_addr_parse(frame.body@.skip(3)).unwrap();
            &&& opt_ta_view(ret.unwrap().addr) == p.0
            &&& ret.unwrap().body@ == frame.body@.skip(3 + p.1 as int)
            &&& ret.unwrap().session_id == frame.session_id
        },
//@ end

//@ hint decode_socks_frame before `&mut frame.body`
        let ghost b0 = frame.body@;
        let ghost sid0 = frame.session_id;
//@ end

//@ hint decode_socks_frame before `let target: TargetAddress = match`
        let ghost a0 = b0.skip(3);
        proof {
            assert(body@ =~= a0.skip(1));
            assert(a0.len() >= 1);
        }
//@ end

//@ hint decode_socks_frame before `(dst, dport).into()` nth=0
                proof {
                    assert(be32(a0.skip(1)) == be32(a0.subrange(1, 5)));
                    assert(be16(a0.skip(1).skip(4)) == be16(a0.subrange(5, 7)));
                    assert(body@ =~= a0.skip(7));
                    assert(a0.skip(7) =~= b0.skip(10));
                }
//@ end

//@ hint decode_socks_frame before `(dst, dport).into()` nth=1
                proof {
                    assert(dst@ =~= a0.subrange(1, 17));
                    assert(be16(a0.skip(1).skip(16)) == be16(a0.subrange(17, 19)));
                    assert(body@ =~= a0.skip(19));
                    assert(a0.skip(19) =~= b0.skip(22));
                }
//@ end

//@ hint decode_socks_frame before `let domain = string_from_utf8_ioerr(`
                proof {
                    assert(body@.subrange(0, len as int) =~= a0.subrange(2, 2 + len));
                }
//@ end

//@ hint decode_socks_frame before `(domain, dport).into()`
                proof {
                    assert(be16(a0.skip(2).skip(len as int)) == be16(a0.subrange(2 + len, 4 + len)));
                    assert(body@ =~= a0.skip(4 + len));
                    assert(a0.skip(4 + len) =~= b0.skip(3 + 4 + len));
                }
//@ end

//@ contract encode_socks_frame
    ensures
        // refuse what cannot be encoded (no address, or a host longer than the 1-byte length allows), else exact image
        ret.is_ok() <==> s5_repr(opt_ta_view(frame.addr)),
        ret.is_ok() ==> ret.unwrap()@ == udp_image(opt_ta_view(frame.addr), frame.body@),
//@ end

//@ hint encode_socks_frame before `domain.vf_as_bytes()`
                proof { axiom_string_utf8(*domain); }
//@ end

/// C10/C03 round trip: what encode emits, decode maps back to the same (address, payload)
proof fn lemma_udp_roundtrip(v: AddrV, payload: Seq<u8>)
    requires s5_repr(v),
    ensures ({
        let img = udp_image(v, payload);
        &&& img.len() >= 4
        &&& s5_addr_parse(img.skip(3)) == Some((v, s5_addr_image(v).len()))
        &&& img.skip(3 + s5_addr_image(v).len() as int) == payload
    }),
{
    let img = udp_image(v, payload);
    let a = s5_addr_image(v);
    assert(img.skip(3) =~= a + payload);
    assert(img.skip(3 + a.len() as int) =~= payload);
    let b = a + payload;
    match v {
        AddrV::NoAddr => {}
        AddrV::Domain(h, p) => {
            let n = h.len() as int;
            assert(b[0] == 3 && b[1] as int == n);
            assert(b.subrange(2, 2 + n) =~= h);
            assert(b.subrange(2 + n, 4 + n) =~= be16_bytes(p));
            lemma_be16_roundtrip(p);
        }
        AddrV::V4(ip, p) => {
            assert(b[0] == 1);
            assert(b.subrange(1, 5) =~= be32_bytes(ip));
            assert(b.subrange(5, 7) =~= be16_bytes(p));
            lemma_be16_roundtrip(p);
            lemma_be32_roundtrip(ip);
        }
        AddrV::V6(o, p) => {
            assert(b[0] == 4);
            assert(b.subrange(1, 17) =~= o);
            assert(b.subrange(17, 19) =~= be16_bytes(p));
            lemma_be16_roundtrip(p);
        }
    }
}
