// Sidecar for unit `milu_str` -- C08: string functions (to_string, to_integer, split, strcat, =~, !~); C18 for the
// `signature` bodies.  Bodies from rustc's expansion of `function!` (T11).  The std / regex operations inside them
// (str::parse, str::split + adapters, String +=, regex::Regex) are dependency contracts in shims/milu.rs.
// Property text: "string functions behaving as documented - or one of the inherently dynamic errors (..., invalid
// regular expression, non-numeric string, ...)": each call returns a value of the declared type or an error, never
// panics; to_string is total.
// (spec side of the cast_value! conversions: see shims/milu.rs; the impl bodies are extracted and checked here)

spec fn rv(args: Seq<Value>, i: int, ctx: ScriptContextRef) -> Result<Value, Error> {
    if 0 <= i < args.len() { real_value_spec(args[i], ctx) } else { Err(Error { type_mismatch: false }) }
}
spec fn is_array_of_string(t: Type) -> bool { t is Array && *(t->Array_0) == Type::String }

//@ contract Type::array_of
        ensures ret is Array && *(ret->Array_0) == t,
//@ end

//@ contract ToString::signature
        ensures
            ret is Ok ==> (ret->Ok_0 == Type::String && args@.len() >= 1),
//@ end
//@ loop ToString::signature 0
                    invariant targs_ok(targs@, args@, vf_it.index@ as int, ctx),
//@ end
//@ contract ToString::call
        ensures
            ret is Ok ==> has_type(ret->Ok_0, Type::String),
            ret is Ok <==> rv(args@, 0, ctx) is Ok,     // to_string never fails on an evaluated argument
            no_type_err(rv(args@, 0, ctx)) ==> no_type_err(ret),
//@ end

//@ contract ToInteger::signature
        ensures
            ret is Ok ==> (ret->Ok_0 == Type::Integer && args@.len() >= 1),
            ret is Ok ==> sig_arg(args@, 0, ctx, Type::String),
//@ end
//@ loop ToInteger::signature 0
                    invariant targs_ok(targs@, args@, vf_it.index@ as int, ctx),
//@ end
//@ contract ToInteger::call
        ensures
            ret is Ok ==> has_type(ret->Ok_0, Type::Integer),
            rv(args@, 0, ctx) is Err ==> ret is Err,
            // a non-numeric string is the only error of its own (dynamic); no failed cast
            (arg_is(args@, 0, ctx, Type::String) && no_type_err(rv(args@, 0, ctx))) ==> no_type_err(ret),
//@ end

//@ contract Split::signature
        ensures
            ret is Ok ==> (is_array_of_string(ret->Ok_0) && args@.len() >= 2),
            ret is Ok ==> (sig_arg(args@, 0, ctx, Type::String) && sig_arg(args@, 1, ctx, Type::String)),
//@ end
//@ loop Split::signature 0
                    invariant targs_ok(targs@, args@, vf_it.index@ as int, ctx),
//@ end
//@ contract Split::call
        ensures
            ret is Ok ==> (ret->Ok_0 is Array && forall|i: int| 0 <= i < ret->Ok_0->Array_0@.len() ==> (#[trigger] ret->Ok_0->Array_0@[i]) is String),
            (rv(args@, 0, ctx) is Err || rv(args@, 1, ctx) is Err) ==> ret is Err,
            (rv(args@, 0, ctx) matches Ok(Value::String(s)) && rv(args@, 1, ctx) matches Ok(Value::String(d))) ==> ret is Ok,
            (arg_is(args@, 0, ctx, Type::String) && arg_is(args@, 1, ctx, Type::String) && no_type_err(rv(args@, 0, ctx)) && no_type_err(rv(args@, 1, ctx))) ==> no_type_err(ret),
//@ end

//@ contract StringConcat::signature
        ensures
            ret is Ok ==> (ret->Ok_0 == Type::String && args@.len() >= 1),
//@ end
//@ loop StringConcat::signature 0
                    invariant targs_ok(targs@, args@, vf_it.index@ as int, ctx),
//@ end
//@ contract StringConcat::call
        ensures
            ret is Ok ==> has_type(ret->Ok_0, Type::String),
            rv(args@, 0, ctx) is Err ==> ret is Err,
//@ end

//@ contract Like::signature
        ensures
            ret is Ok ==> (ret->Ok_0 == Type::Boolean && args@.len() >= 2),
            ret is Ok ==> (sig_arg(args@, 0, ctx, Type::String) && sig_arg(args@, 1, ctx, Type::String)),
//@ end
//@ loop Like::signature 0
                    invariant targs_ok(targs@, args@, vf_it.index@ as int, ctx),
//@ end
//@ contract Like::call
        ensures
            ret is Ok ==> has_type(ret->Ok_0, Type::Boolean),
            (rv(args@, 0, ctx) is Err || rv(args@, 1, ctx) is Err) ==> ret is Err,
            // an invalid regular expression is the only error of its own (dynamic); no failed cast
            (arg_is(args@, 0, ctx, Type::String) && arg_is(args@, 1, ctx, Type::String) && no_type_err(rv(args@, 0, ctx)) && no_type_err(rv(args@, 1, ctx))) ==> no_type_err(ret),
//@ end

//@ contract NotLike::signature
        ensures
            ret is Ok ==> (ret->Ok_0 == Type::Boolean && args@.len() >= 2),
            ret is Ok ==> (sig_arg(args@, 0, ctx, Type::String) && sig_arg(args@, 1, ctx, Type::String)),
//@ end
//@ loop NotLike::signature 0
                    invariant targs_ok(targs@, args@, vf_it.index@ as int, ctx),
//@ end
//@ contract NotLike::call
        ensures
            ret is Ok ==> has_type(ret->Ok_0, Type::Boolean),
            (rv(args@, 0, ctx) is Err || rv(args@, 1, ctx) is Err) ==> ret is Err,
            // an invalid regular expression is the only error of its own (dynamic); no failed cast
            (arg_is(args@, 0, ctx, Type::String) && arg_is(args@, 1, ctx, Type::String) && no_type_err(rv(args@, 0, ctx)) && no_type_err(rv(args@, 1, ctx))) ==> no_type_err(ret),
//@ end
