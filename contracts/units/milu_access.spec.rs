// Sidecar for unit `milu_access` -- C08: indexing, tuple access, conditional, membership; C18 for check-time bodies.
// Bodies: `impl Indexable for Vec<Value>` (script.rs), `Index`, `Access` (its nested `tuple` / `accessible` fns),
// `If`, `IsMemberOf` (stdlib.rs) -- all taken from rustc's expansion (they use the repo macros `args!` / `bail!`).
// Property text: "indexing, membership ... behaving as documented - or one of the inherently dynamic errors (...,
// index out of range, ...)"; "never crashes the process"; C18: a posted rule never aborts the process while checked
// (`Access::signature` runs at load time).
//
// Arity preconditions.  `Index`, `Access`, `If` are not bound to any name in the script context: the only producer is
// the parser (parser.rs:32-41, 429: `Index::make_call(p1, p2)`, `If::make_call(cond, yes, no)`), which fixes the
// argument count.  Hence `requires args@.len() >= 2 / 3` on the bodies that index `args[..]` directly.  Bodies that go
// through `args!` need no such precondition (and must not panic on short lists).
// (spec side of the cast_value! conversions: see shims/milu.rs; the impl bodies are extracted and checked here)

// ---------------------------------------------------------------- Vec<Value> as Indexable
// "a negative index counts from the end; anything outside -len..len is an error" -- for ALL i64 and all lengths.
//@ contract VecValue::get
        ensures
            (0 <= index < self@.len()) ==> ret == Ok::<Value, Error>(self@[index as int]),
            (0 - self@.len() <= index < 0) ==> ret == Ok::<Value, Error>(self@[self@.len() + index]),
            (index >= self@.len() || index < 0 - self@.len()) ==> ret is Err,
//@ end
//@ contract VecValue::length
        ensures ret == self@.len(),
//@ end

// ---------------------------------------------------------------- Index
//@ contract Index::signature
        requires args@.len() >= 2,
//@ end
//@ contract Index::call
        ensures args@.len() < 2 ==> ret is Err,
//@ end

// ---------------------------------------------------------------- Access on tuples (check time and run time)
// `(a, b, c).N`: N is a literal.  In range => the N-th member type / value; anything else is an error, never a panic.
spec fn tuple_idx_ok(len: nat, index: Value) -> bool {
    index is Integer && 0 <= index->Integer_0 < len
}
//@ contract Access_signature::tuple
        ensures
            match obj {
                Type::Tuple(t) => if tuple_idx_ok(t@.len(), *index) { ret == Ok::<Type, Error>(t@[index->Integer_0 as int]) } else { ret is Err },
                _ => ret is Err,
            },
//@ end
//@ contract Access_call::tuple
        ensures
            match obj {
                Value::Tuple(t) => if tuple_idx_ok(t@.len(), *index) { ret == value_spec(t@[index->Integer_0 as int], ctx) } else { ret is Err },
                _ => ret is Err,
            },
//@ end
//@ contract Access_signature_a::accessible
        ensures !(index is Identifier) ==> ret is Err,
//@ end
//@ contract Access_call_a::accessible
        ensures !(index is Identifier) ==> ret is Err,
//@ end

// ---------------------------------------------------------------- If
//@ contract If::signature
        ensures
            ret is Ok ==> (args@.len() >= 3 && type_spec(args@[1], ctx) == ret),
            // accepted ==> the condition has static type Boolean (or Any)
            ret is Ok ==> (type_spec(args@[0], ctx) is Ok && scalar_ok(type_spec(args@[0], ctx)->Ok_0, Type::Boolean)),
//@ end
//@ loop If::signature 0
                    invariant
                        targs@.len() == vf_it.index@,
                        forall|k: int| 0 <= k < targs@.len() ==> type_spec(args@[k], ctx) == Ok::<Type, Error>(#[trigger] targs@[k]),
//@ end
// "conditional ... behaving as documented": exactly one branch is evaluated, chosen by the condition; a condition
// that is not a boolean is an error.
//@ contract If::call
        requires args@.len() >= 3,
        ensures
            match value_spec(args@[0], ctx) {
                Ok(Value::Boolean(c)) => ret == (if c { value_spec(args@[1], ctx) } else { value_spec(args@[2], ctx) }),
                _ => ret is Err,
            },
            // a condition of static type Boolean that evaluates never makes `if` fail by itself ("condition is not a boolean")
            (type_spec(args@[0], ctx) is Ok && type_spec(args@[0], ctx)->Ok_0 == Type::Boolean && value_spec(args@[0], ctx) is Ok)
                ==> (ret == value_spec(args@[1], ctx) || ret == value_spec(args@[2], ctx)),
//@ end

// ---------------------------------------------------------------- IsMemberOf
//@ contract IsMemberOf::signature
        ensures
            ret is Ok ==> (ret->Ok_0 == Type::Boolean && args@.len() >= 2),
//@ end
//@ loop IsMemberOf::signature 0
                    invariant targs@.len() == vf_it.index@,
//@ end
//@ contract IsMemberOf::call
        ensures
            ret is Ok ==> has_type(ret->Ok_0, Type::Boolean),
            args@.len() < 2 ==> ret is Err,
//@ end
//@ loop IsMemberOf::call 0
                    invariant args@.len() >= 2,
//@ end

// ---------------------------------------------------------------- Access (outer bodies, extracted directly from
// stdlib.rs: hand-written, `trace!` / `bail!` are the shim macros; the nested fn items are part of the text)
//@ contract Access::signature
        requires args@.len() >= 2,
//@ end
//@ contract Access::call
        requires args@.len() >= 2,
//@ end

// ---------------------------------------------------------------- Call (function application): check time and run time
// `func` hands out only objects that ARE functions; `signature` (reached by posting a rule list, C18) and `call` unwrap
// `as_callable()` on that promise.  An expression that applies something that is not a function is an error, not a panic.
//@ contract Call::func
        ensures
            ret is Ok ==> (*(ret->Ok_0)).callable(),
//@ end
//@ contract Call::signature
        ensures true,
//@ end
//@ contract Call::call
        ensures true,
//@ end
