// wip
