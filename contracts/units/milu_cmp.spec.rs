// Sidecar for unit `milu_cmp` -- C08: comparison and boolean builtins (bodies from rustc's expansion of
// `compare_op!` / `function!`, T11); C18 for the `signature` bodies.
// Property text: "comparison, boolean ... behaving as documented", "never crashes the process", "Expressions that are
// ill-typed are rejected when loaded".
//   compare B::call: for EVERY pair of operand values (the declared signature is (Any, Any)): no panic; two integers /
//     two strings / two booleans give exactly the documented ordering (false < true, strings by std's ordering);
//     any other pair is an error; Ok(v) ==> v is a Boolean.
//   compare_signature (exists after the proposed fix): Ok(t) ==> t == Boolean, two arguments present, and both operand
//     types are scalar or Any  (mixed / container operands are rejected at load).
//   Not/And/Or/Xor: Ok(v) ==> Boolean; truth tables incl. short-circuit of And / Or on the first operand.
// (spec side of the cast_value! conversions: see shims/milu.rs; the impl bodies are extracted and checked here)

spec fn rv(args: Seq<Value>, i: int, ctx: ScriptContextRef) -> Result<Value, Error> {
    if 0 <= i < args.len() { real_value_spec(args[i], ctx) } else { Err(Error { type_mismatch: false }) }
}
spec fn same_scalar_kind(a: Value, b: Value) -> bool {
    (a is Integer && b is Integer) || (a is String && b is String) || (a is Boolean && b is Boolean)
}
spec fn scalar_or_any(t: Type) -> bool { t is Integer || t is String || t is Boolean || t is Any }
spec fn types_agree(a: Type, b: Type) -> bool { a is Any || b is Any || a == b }
spec fn same_static_scalar(args: Seq<Value>, ctx: ScriptContextRef) -> bool {
    arg_is(args, 0, ctx, Type::Integer) && arg_is(args, 1, ctx, Type::Integer)
    || arg_is(args, 0, ctx, Type::String) && arg_is(args, 1, ctx, Type::String)
    || arg_is(args, 0, ctx, Type::Boolean) && arg_is(args, 1, ctx, Type::Boolean)
}
spec fn okb(b: bool) -> Result<Value, Error> { Ok(Value::Boolean(b)) }

//@ contract comparable
    ensures ret == scalar_or_any(*t),
//@ end
//@ contract compare_signature
    ensures
        ret is Ok ==> (ret->Ok_0 == Type::Boolean && args@.len() == 2
            && real_type_spec(args@[0], ctx) is Ok && scalar_or_any(real_type_spec(args@[0], ctx)->Ok_0)
            && real_type_spec(args@[1], ctx) is Ok && scalar_or_any(real_type_spec(args@[1], ctx)->Ok_0)),
        // accepted ==> the two static types agree (same scalar, or one of them is Any)
        ret is Ok ==> types_agree(real_type_spec(args@[0], ctx)->Ok_0, real_type_spec(args@[1], ctx)->Ok_0),
//@ end

// ---------------------------------------------------------------- Greater
//@ contract Greater::signature
        ensures
            ret is Ok ==> (ret->Ok_0 == Type::Boolean && args@.len() >= 2),
            ret is Ok ==> (rt(args@, 0, ctx) is Ok && rt(args@, 1, ctx) is Ok && types_agree(rt(args@, 0, ctx)->Ok_0, rt(args@, 1, ctx)->Ok_0)),
//@ end
//@ contract Greater::call
        ensures
            ret is Ok ==> has_type(ret->Ok_0, Type::Boolean),
            (rv(args@, 0, ctx) is Err || rv(args@, 1, ctx) is Err) ==> ret is Err,
            (rv(args@, 0, ctx) is Ok && rv(args@, 1, ctx) is Ok) ==> (match (rv(args@, 0, ctx)->Ok_0, rv(args@, 1, ctx)->Ok_0) {
                (Value::Integer(a), Value::Integer(b)) => ret == okb(a > b),
                (Value::String(x), Value::String(y)) => ret == okb(str_lt(y, x)),
                (Value::Boolean(p), Value::Boolean(q)) => ret == okb(p && !q),
                _ => ret is Err,
            }),
            // both operands of the same static scalar type and evaluated: the comparison is defined -- no error at all
            (same_static_scalar(args@, ctx) && rv(args@, 0, ctx) is Ok && rv(args@, 1, ctx) is Ok) ==> ret is Ok,
//@ end

// ---------------------------------------------------------------- GreaterOrEqual
//@ contract GreaterOrEqual::signature
        ensures
            ret is Ok ==> (ret->Ok_0 == Type::Boolean && args@.len() >= 2),
            ret is Ok ==> (rt(args@, 0, ctx) is Ok && rt(args@, 1, ctx) is Ok && types_agree(rt(args@, 0, ctx)->Ok_0, rt(args@, 1, ctx)->Ok_0)),
//@ end
//@ contract GreaterOrEqual::call
        ensures
            ret is Ok ==> has_type(ret->Ok_0, Type::Boolean),
            (rv(args@, 0, ctx) is Err || rv(args@, 1, ctx) is Err) ==> ret is Err,
            (rv(args@, 0, ctx) is Ok && rv(args@, 1, ctx) is Ok) ==> (match (rv(args@, 0, ctx)->Ok_0, rv(args@, 1, ctx)->Ok_0) {
                (Value::Integer(a), Value::Integer(b)) => ret == okb(a >= b),
                (Value::String(x), Value::String(y)) => ret == okb(!str_lt(x, y)),
                (Value::Boolean(p), Value::Boolean(q)) => ret == okb(p || !q),
                _ => ret is Err,
            }),
            // both operands of the same static scalar type and evaluated: the comparison is defined -- no error at all
            (same_static_scalar(args@, ctx) && rv(args@, 0, ctx) is Ok && rv(args@, 1, ctx) is Ok) ==> ret is Ok,
//@ end

// ---------------------------------------------------------------- Lesser
//@ contract Lesser::signature
        ensures
            ret is Ok ==> (ret->Ok_0 == Type::Boolean && args@.len() >= 2),
            ret is Ok ==> (rt(args@, 0, ctx) is Ok && rt(args@, 1, ctx) is Ok && types_agree(rt(args@, 0, ctx)->Ok_0, rt(args@, 1, ctx)->Ok_0)),
//@ end
//@ contract Lesser::call
        ensures
            ret is Ok ==> has_type(ret->Ok_0, Type::Boolean),
            (rv(args@, 0, ctx) is Err || rv(args@, 1, ctx) is Err) ==> ret is Err,
            (rv(args@, 0, ctx) is Ok && rv(args@, 1, ctx) is Ok) ==> (match (rv(args@, 0, ctx)->Ok_0, rv(args@, 1, ctx)->Ok_0) {
                (Value::Integer(a), Value::Integer(b)) => ret == okb(a < b),
                (Value::String(x), Value::String(y)) => ret == okb(str_lt(x, y)),
                (Value::Boolean(p), Value::Boolean(q)) => ret == okb(!p && q),
                _ => ret is Err,
            }),
            // both operands of the same static scalar type and evaluated: the comparison is defined -- no error at all
            (same_static_scalar(args@, ctx) && rv(args@, 0, ctx) is Ok && rv(args@, 1, ctx) is Ok) ==> ret is Ok,
//@ end

// ---------------------------------------------------------------- LesserOrEqual
//@ contract LesserOrEqual::signature
        ensures
            ret is Ok ==> (ret->Ok_0 == Type::Boolean && args@.len() >= 2),
            ret is Ok ==> (rt(args@, 0, ctx) is Ok && rt(args@, 1, ctx) is Ok && types_agree(rt(args@, 0, ctx)->Ok_0, rt(args@, 1, ctx)->Ok_0)),
//@ end
//@ contract LesserOrEqual::call
        ensures
            ret is Ok ==> has_type(ret->Ok_0, Type::Boolean),
            (rv(args@, 0, ctx) is Err || rv(args@, 1, ctx) is Err) ==> ret is Err,
            (rv(args@, 0, ctx) is Ok && rv(args@, 1, ctx) is Ok) ==> (match (rv(args@, 0, ctx)->Ok_0, rv(args@, 1, ctx)->Ok_0) {
                (Value::Integer(a), Value::Integer(b)) => ret == okb(a <= b),
                (Value::String(x), Value::String(y)) => ret == okb(!str_lt(y, x)),
                (Value::Boolean(p), Value::Boolean(q)) => ret == okb(!p || q),
                _ => ret is Err,
            }),
            // both operands of the same static scalar type and evaluated: the comparison is defined -- no error at all
            (same_static_scalar(args@, ctx) && rv(args@, 0, ctx) is Ok && rv(args@, 1, ctx) is Ok) ==> ret is Ok,
//@ end

// ---------------------------------------------------------------- Equal
//@ contract Equal::signature
        ensures
            ret is Ok ==> (ret->Ok_0 == Type::Boolean && args@.len() >= 2),
            ret is Ok ==> (rt(args@, 0, ctx) is Ok && rt(args@, 1, ctx) is Ok && types_agree(rt(args@, 0, ctx)->Ok_0, rt(args@, 1, ctx)->Ok_0)),
//@ end
//@ contract Equal::call
        ensures
            ret is Ok ==> has_type(ret->Ok_0, Type::Boolean),
            (rv(args@, 0, ctx) is Err || rv(args@, 1, ctx) is Err) ==> ret is Err,
            (rv(args@, 0, ctx) is Ok && rv(args@, 1, ctx) is Ok) ==> (match (rv(args@, 0, ctx)->Ok_0, rv(args@, 1, ctx)->Ok_0) {
                (Value::Integer(a), Value::Integer(b)) => ret == okb(a == b),
                (Value::String(x), Value::String(y)) => ret == okb(x == y),
                (Value::Boolean(p), Value::Boolean(q)) => ret == okb(p == q),
                _ => ret is Err,
            }),
            // both operands of the same static scalar type and evaluated: the comparison is defined -- no error at all
            (same_static_scalar(args@, ctx) && rv(args@, 0, ctx) is Ok && rv(args@, 1, ctx) is Ok) ==> ret is Ok,
//@ end

// ---------------------------------------------------------------- NotEqual
//@ contract NotEqual::signature
        ensures
            ret is Ok ==> (ret->Ok_0 == Type::Boolean && args@.len() >= 2),
            ret is Ok ==> (rt(args@, 0, ctx) is Ok && rt(args@, 1, ctx) is Ok && types_agree(rt(args@, 0, ctx)->Ok_0, rt(args@, 1, ctx)->Ok_0)),
//@ end
//@ contract NotEqual::call
        ensures
            ret is Ok ==> has_type(ret->Ok_0, Type::Boolean),
            (rv(args@, 0, ctx) is Err || rv(args@, 1, ctx) is Err) ==> ret is Err,
            (rv(args@, 0, ctx) is Ok && rv(args@, 1, ctx) is Ok) ==> (match (rv(args@, 0, ctx)->Ok_0, rv(args@, 1, ctx)->Ok_0) {
                (Value::Integer(a), Value::Integer(b)) => ret == okb(a != b),
                (Value::String(x), Value::String(y)) => ret == okb(x != y),
                (Value::Boolean(p), Value::Boolean(q)) => ret == okb(p != q),
                _ => ret is Err,
            }),
            // both operands of the same static scalar type and evaluated: the comparison is defined -- no error at all
            (same_static_scalar(args@, ctx) && rv(args@, 0, ctx) is Ok && rv(args@, 1, ctx) is Ok) ==> ret is Ok,
//@ end

// ---------------------------------------------------------------- Not
//@ contract Not::signature
        ensures
            ret is Ok ==> (ret->Ok_0 == Type::Boolean && args@.len() >= 1),
            ret is Ok ==> (sig_arg(args@, 0, ctx, Type::Boolean)),
//@ end
//@ loop Not::signature 0
                    invariant targs_ok(targs@, args@, vf_it.index@ as int, ctx),
//@ end
//@ contract Not::call
        ensures
            ret is Ok ==> has_type(ret->Ok_0, Type::Boolean),
            rv(args@, 0, ctx) is Err ==> ret is Err,
            rv(args@, 0, ctx) matches Ok(Value::Boolean(p)) ==> ret == okb(!p),
            // operands of static type Boolean: no failed cast
            (arg_is(args@, 0, ctx, Type::Boolean) && no_type_err(rv(args@, 0, ctx))) ==> no_type_err(ret),
//@ end

// ---------------------------------------------------------------- And (second operand not evaluated when the first is false)
//@ contract And::signature
        ensures
            ret is Ok ==> (ret->Ok_0 == Type::Boolean && args@.len() >= 2),
            ret is Ok ==> (sig_arg(args@, 0, ctx, Type::Boolean) && sig_arg(args@, 1, ctx, Type::Boolean)),
//@ end
//@ loop And::signature 0
                    invariant targs_ok(targs@, args@, vf_it.index@ as int, ctx),
//@ end
//@ contract And::call
        ensures
            ret is Ok ==> has_type(ret->Ok_0, Type::Boolean),
            rv(args@, 0, ctx) is Err ==> ret is Err,
            args@.len() < 2 ==> ret is Err,   // (rejected at load by the signature)
            args@.len() >= 2 ==> (rv(args@, 0, ctx) matches Ok(Value::Boolean(p)) ==> (
                if !p { ret == okb(false) } else {
                    &&& (rv(args@, 1, ctx) is Err ==> ret is Err)
                    &&& (rv(args@, 1, ctx) matches Ok(Value::Boolean(q)) ==> ret == okb(q))
                })),
            // operands of static type Boolean: no failed cast
            (arg_is(args@, 0, ctx, Type::Boolean) && arg_is(args@, 1, ctx, Type::Boolean) && no_type_err(rv(args@, 0, ctx)) && no_type_err(rv(args@, 1, ctx))) ==> no_type_err(ret),
//@ end

// ---------------------------------------------------------------- Or (second operand not evaluated when the first is true)
//@ contract Or::signature
        ensures
            ret is Ok ==> (ret->Ok_0 == Type::Boolean && args@.len() >= 2),
            ret is Ok ==> (sig_arg(args@, 0, ctx, Type::Boolean) && sig_arg(args@, 1, ctx, Type::Boolean)),
//@ end
//@ loop Or::signature 0
                    invariant targs_ok(targs@, args@, vf_it.index@ as int, ctx),
//@ end
//@ contract Or::call
        ensures
            ret is Ok ==> has_type(ret->Ok_0, Type::Boolean),
            rv(args@, 0, ctx) is Err ==> ret is Err,
            args@.len() < 2 ==> ret is Err,   // (rejected at load by the signature)
            args@.len() >= 2 ==> (rv(args@, 0, ctx) matches Ok(Value::Boolean(p)) ==> (
                if p { ret == okb(true) } else {
                    &&& (rv(args@, 1, ctx) is Err ==> ret is Err)
                    &&& (rv(args@, 1, ctx) matches Ok(Value::Boolean(q)) ==> ret == okb(q))
                })),
            // operands of static type Boolean: no failed cast
            (arg_is(args@, 0, ctx, Type::Boolean) && arg_is(args@, 1, ctx, Type::Boolean) && no_type_err(rv(args@, 0, ctx)) && no_type_err(rv(args@, 1, ctx))) ==> no_type_err(ret),
//@ end

// ---------------------------------------------------------------- Xor
//@ contract Xor::signature
        ensures
            ret is Ok ==> (ret->Ok_0 == Type::Boolean && args@.len() >= 2),
            ret is Ok ==> (sig_arg(args@, 0, ctx, Type::Boolean) && sig_arg(args@, 1, ctx, Type::Boolean)),
//@ end
//@ loop Xor::signature 0
                    invariant targs_ok(targs@, args@, vf_it.index@ as int, ctx),
//@ end
//@ contract Xor::call
        ensures
            ret is Ok ==> has_type(ret->Ok_0, Type::Boolean),
            (rv(args@, 0, ctx) is Err || rv(args@, 1, ctx) is Err) ==> ret is Err,
            rv(args@, 0, ctx) matches Ok(Value::Boolean(p)) ==> (rv(args@, 1, ctx) matches Ok(Value::Boolean(q)) ==> ret == okb(p != q)),
            // operands of static type Boolean: no failed cast
            (arg_is(args@, 0, ctx, Type::Boolean) && arg_is(args@, 1, ctx, Type::Boolean) && no_type_err(rv(args@, 0, ctx)) && no_type_err(rv(args@, 1, ctx))) ==> no_type_err(ret),
//@ end
