// Sidecar for unit `milu_ext` (src/rules/script_ext.rs) -- C08 / C02: what the checker is told about a request
// attribute (`Accessible::type_of`) is the type of the value a filter then receives (`Accessible::get`).
// The table is written from the documentation (config.yaml:140: "target: {port:int, host:string, type:string}"),
// not from the code; BOTH functions are verified against the same table, which is the agreement the property needs:
// an expression accepted with `request.target.port : T` really gets a T at request time.
// C02: the value handed to the filter is the address' own host / port.
// (milu's Value / Type / conversions come from the compiler expansion of the milu crate, as in the other milu units.)

pub open spec fn addr_attr_type(name: &str) -> Option<Type> {
    if name == "host" || name == "type" { Some(Type::String) }
    else if name == "port" { Some(Type::Integer) }
    else { None }
}

//@ contract TargetAddress::type_of
        ensures match addr_attr_type(name) { Some(t) => ret == Ok::<Type, Error>(t), None => ret is Err },
//@ end
//@ contract TargetAddress::get
        ensures
            match addr_attr_type(name) { Some(t) => ret is Ok && has_type(ret->Ok_0, t), None => ret is Err },
            name == "host" ==> ret == Ok::<Value, Error>(Value::String(self.host_spec())),
            name == "port" ==> ret == Ok::<Value, Error>(Value::Integer(self.port_spec() as i64)),
//@ end
//@ hint TargetAddress::type_of before `match name {`
            proof { reveal_strlit("host"); reveal_strlit("port"); reveal_strlit("type"); }
//@ end
//@ hint TargetAddress::get before `match name {`
            proof { reveal_strlit("host"); reveal_strlit("port"); reveal_strlit("type"); broadcast use axiom_str_to_value; }
//@ end

//@ contract SocketAddress::type_of
        ensures match addr_attr_type(name) { Some(t) => ret == Ok::<Type, Error>(t), None => ret is Err },
//@ end
//@ contract SocketAddress::get
        ensures
            match addr_attr_type(name) { Some(t) => ret is Ok && has_type(ret->Ok_0, t), None => ret is Err },
            name == "host" ==> ret == Ok::<Value, Error>(Value::String(self.host_spec())),
            name == "port" ==> ret == Ok::<Value, Error>(Value::Integer(self.port_spec() as i64)),
//@ end
//@ hint SocketAddress::type_of before `match name {`
            proof { reveal_strlit("host"); reveal_strlit("port"); reveal_strlit("type"); }
//@ end
//@ hint SocketAddress::get before `match name {`
            proof { reveal_strlit("host"); reveal_strlit("port"); reveal_strlit("type"); broadcast use axiom_str_to_value; }
//@ end
