// Sidecar for unit `http` (src/common/http.rs): C12 (head readers are functions of the byte stream, consume exactly
// whole lines, reject truncated heads), C05 (no panic on any input), C06 (reply writers deliver every line, the blank
// line and the body, and flush).

/// the reader only moved forward: final.inp is old.inp minus the (final.pos - old.pos) consumed bytes
pub open spec fn rd_moved(a: &DynReader, b: &DynReader) -> bool {
    &&& b.pos() >= a.pos() && b.pos() - a.pos() <= a.inp().len()
    &&& b.inp() =~= a.inp().skip(b.pos() - a.pos())
}

/// everything consumed ends exactly at a line feed (a head never ends in the middle of a line)
pub open spec fn ends_at_lf(a: &DynReader, b: &DynReader) -> bool {
    b.pos() - a.pos() >= 1 && b.pos() - a.pos() <= a.inp().len() && a.inp()[b.pos() - a.pos() - 1] == 10u8
}

//@ contract read_line
    ensures
        // a line is returned only if its terminator was received; it is exactly the bytes up to and including it
        ret.is_ok() ==> {
            &&& rd_moved(old(s), final(s)) && ends_at_lf(old(s), final(s))
            &&& first_index_of(old(s).inp(), 10u8, final(s).pos() - old(s).pos() - 1)
            &&& string_bytes(ret.unwrap()) == old(s).inp().take(final(s).pos() - old(s).pos())
        },
//@ end

//@ contract read_headers
    ensures
        ret.is_ok() ==> rd_moved(old(socket), final(socket)) && ends_at_lf(old(socket), final(socket)),
//@ end

//@ loop read_headers 0
        invariant
            rd_moved(old(socket), socket),
            socket.pos() == old(socket).pos() || ends_at_lf(old(socket), socket),
        decreases socket.inp().len(),
//@ end

//@ hint read_headers before `read_line(socket)`
        let ghost s1_inp = socket.inp();
        let ghost s1_pos = socket.pos();
//@ end

//@ hint read_headers before `.vf_trim_end()`
        proof {
            let i0 = old(socket).inp();
            let d1 = s1_pos - old(socket).pos();
            let d2 = socket.pos() - s1_pos;
            assert(s1_inp =~= i0.skip(d1));
            assert(socket.inp() =~= s1_inp.skip(d2));
            assert(socket.inp() =~= i0.skip(d1 + d2));
            assert(i0[d1 + d2 - 1] == s1_inp[d2 - 1]);
        }
//@ end

//@ contract HttpRequest::read_from
    ensures
        ret.is_ok() ==> rd_moved(old(socket), final(socket)) && ends_at_lf(old(socket), final(socket)),
        // the three request-line fields are the whitespace-separated fields of the first line (a function of its bytes)
        ret.is_ok() ==> exists|k: int| {
            &&& #[trigger] first_index_of(old(socket).inp(), 10u8, k)
            &&& split_ws_spec(trim_end_spec(old(socket).inp().take(k + 1))).len() == 3
            &&& string_bytes(ret.unwrap().method) == split_ws_spec(trim_end_spec(old(socket).inp().take(k + 1)))[0]
            &&& string_bytes(ret.unwrap().resource) == split_ws_spec(trim_end_spec(old(socket).inp().take(k + 1)))[1]
            &&& string_bytes(ret.unwrap().version) == split_ws_spec(trim_end_spec(old(socket).inp().take(k + 1)))[2]
        },
//@ end

//@ hint HttpRequest::read_from before `.vf_trim_end()`
        let ghost s1_inp = socket.inp();
        let ghost s1_pos = socket.pos();
//@ end

//@ hint HttpRequest::read_from before `Ok(ret)`
        proof {
            let i0 = old(socket).inp();
            let d1 = s1_pos - old(socket).pos();
            let d2 = socket.pos() - s1_pos;
            assert(s1_inp =~= i0.skip(d1));
            assert(socket.inp() =~= i0.skip(d1 + d2));
            assert(i0[d1 + d2 - 1] == s1_inp[d2 - 1]);
            assert(first_index_of(i0, 10u8, d1 - 1));
        }
//@ end

//@ contract HttpResponse::read_from
    ensures
        ret.is_ok() ==> rd_moved(old(socket), final(socket)) && ends_at_lf(old(socket), final(socket)),
        // the status code the connector acts on is the decimal number in the second field of the status line
        ret.is_ok() ==> exists|k: int| {
            &&& #[trigger] first_index_of(old(socket).inp(), 10u8, k)
            &&& splitn3_spec(trim_end_spec(old(socket).inp().take(k + 1))).len() == 3
            &&& parse_u16_spec(splitn3_spec(trim_end_spec(old(socket).inp().take(k + 1)))[1]) == Some(ret.unwrap().code)
            &&& string_bytes(ret.unwrap().version) == splitn3_spec(trim_end_spec(old(socket).inp().take(k + 1)))[0]
            &&& string_bytes(ret.unwrap().status) == splitn3_spec(trim_end_spec(old(socket).inp().take(k + 1)))[2]
        },
//@ end

//@ hint HttpResponse::read_from before `.vf_trim_end()`
        let ghost s1_inp = socket.inp();
        let ghost s1_pos = socket.pos();
//@ end

//@ hint HttpResponse::read_from before `Ok(ret)`
        proof {
            let i0 = old(socket).inp();
            let d1 = s1_pos - old(socket).pos();
            let d2 = socket.pos() - s1_pos;
            assert(s1_inp =~= i0.skip(d1));
            assert(socket.inp() =~= i0.skip(d1 + d2));
            assert(i0[d1 + d2 - 1] == s1_inp[d2 - 1]);
            assert(first_index_of(i0, 10u8, d1 - 1));
        }
//@ end

// ---------------------------------------------------------------- writers (C06, C03)

/// a head was sent completely: start line, one line per header, the blank line -- each handed over whole -- and flushed
pub open spec fn head_sent(a: &DynWriter, b: &DynWriter, nheaders: nat) -> bool {
    &&& b.nchunks() == a.nchunks() + 2 + nheaders
    &&& b.last_chunk() == crlf()
    &&& b.flushed_len() == b.written().len()
    &&& b.written().len() >= a.written().len() + 2
}

//@ contract HttpRequest::write_to
    ensures
        ret.is_ok() ==> head_sent(old(socket), final(socket), self.headers@.len()),
//@ end

//@ loop HttpRequest::write_to 0
            invariant
                socket.nchunks() == old(socket).nchunks() + 1 + vf_it.index@,
                socket.written().len() >= old(socket).written().len(),
//@ end

//@ contract HttpResponse::write_to
    ensures
        ret.is_ok() ==> head_sent(old(socket), final(socket), self.headers@.len()),
//@ end

//@ loop HttpResponse::write_to 0
            invariant
                socket.nchunks() == old(socket).nchunks() + 1 + vf_it.index@,
                socket.written().len() >= old(socket).written().len(),
//@ end

//@ contract HttpResponse::write_with_body
    ensures
        // head, then the body handed over whole, and everything flushed: the advertised body really leaves the proxy
        ret.is_ok() ==> {
            &&& final(socket).nchunks() == old(socket).nchunks() + 3 + self.headers@.len()
            &&& final(socket).last_chunk() == body@
            &&& final(socket).flushed_len() == final(socket).written().len()
            &&& final(socket).written().len() >= old(socket).written().len() + 2 + body@.len()
            &&& final(socket).written().subrange(final(socket).written().len() - body@.len(), final(socket).written().len() as int) == body@
        },
//@ end
