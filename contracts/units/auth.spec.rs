// Sidecar for unit `auth` -- C07 (configured peer authentication enforced).
// Property text (part): "When a listener is configured to require credentials ... no request from a peer lacking
// valid credentials is ever routed or forwarded, whatever methods it offers and in whatever order".
// Decided here: (1) the credential gate `AuthData::check` lets a request through only if authentication is not
// required, or the peer supplied credentials that are in the configured user list or were accepted by the
// external auth command; (2) the SOCKS5 method negotiation never selects "no authentication" (method 0,
// RFC 1928) when credentials are required, only ever selects a method the peer offered, and depends only on the
// SET of offered methods.  That the listener refuses the request when `check` is false is outside this unit.

// ---------------------------------------------------------------- AuthData::check

impl AuthData {
    /// Verus treats AuthData as opaque in the contract of a pub fn (it has private fields): closed accessors.
    pub closed spec fn is_required(&self) -> bool { self.required }
    /// (name, pass) is one of the configured users
    pub closed spec fn lists(&self, name: Seq<char>, pass: Seq<char>) -> bool {
        user_listed(self.users@, name, pass)
    }
}

//@ contract AuthData::check
        ensures
            !self.is_required() ==> ret,
            // no credentials offered
            self.is_required() && user.is_none() ==> !ret,
            // credentials offered: accepted iff listed, or (not listed and) the auth command really said yes
            self.is_required() && user.is_some() ==> {
                let u = user.unwrap();
                &&& ret ==> (self.lists(u.0@, u.1@) || auth_cmd_answered(u.0@, u.1@, true))
                &&& !ret ==> (!self.lists(u.0@, u.1@) && auth_cmd_answered(u.0@, u.1@, false))
            },
//@ end

// ---------------------------------------------------------------- PasswordAuth::select_method

/// RFC 1928 method numbers (written from the RFC, not from the repo constants)
spec const METHOD_NONE: u8 = 0;
spec const METHOD_USRPWD: u8 = 2;

/// The server side negotiation of RFC 1928/1929 as a function of the SET of offered methods.
spec fn select_spec(required: bool, offered: Set<u8>) -> Option<u8> {
    if !required && offered.contains(METHOD_NONE) {
        Some(METHOD_NONE)
    } else if offered.contains(METHOD_USRPWD) {
        Some(METHOD_USRPWD)
    } else {
        None
    }
}

//@ contract PasswordAuth::select_method
        ensures
            // credentials required: "no authentication" is never selected, whatever is offered
            self.required ==> ret != Some(METHOD_NONE),
            // only a method the peer offered
            ret.is_some() ==> methods@.contains(ret.unwrap()),
            // a function of the set of offered methods: order and repetition are irrelevant
            ret == select_spec(self.required, methods@.to_set()),
//@ end

//@ hint PasswordAuth::select_method before `if methods.contains(&SOCKS_AUTH_NONE) && !self.required {`
        proof {
            broadcast use axiom_slice_contains_u8;
            assert(methods@.to_set().contains(METHOD_NONE) == methods@.contains(METHOD_NONE));
            assert(methods@.to_set().contains(METHOD_USRPWD) == methods@.contains(METHOD_USRPWD));
        }
//@ end

/// "whatever methods it offers and in whatever order": two offers with the same set of methods get the same answer,
/// and when credentials are required that answer is never METHOD_NONE.
proof fn lemma_order_irrelevant(required: bool, m1: Seq<u8>, m2: Seq<u8>)
    requires m1.to_set() == m2.to_set(),
    ensures
        select_spec(required, m1.to_set()) == select_spec(required, m2.to_set()),
        required ==> select_spec(required, m1.to_set()) != Some(METHOD_NONE),
{
}
