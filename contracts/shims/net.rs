// ---------------------------------------------------------------------------------------------
// Dependency contract: std::net address types as plain data (transparent shims; IPv6 flowinfo/scope are 0
// everywhere in the covered code and are not modelled).

#[derive(PartialEq, Eq, Structural)]
pub struct Ipv4Addr { pub bits: u32 }
#[derive(PartialEq, Eq)]
pub struct Ipv6Addr { pub octs: [u8; 16] }
#[derive(PartialEq, Eq)]
pub struct SocketAddrV4 { pub ip: Ipv4Addr, pub port: u16 }
#[derive(PartialEq, Eq)]
pub struct SocketAddrV6 { pub ip: Ipv6Addr, pub port: u16 }
#[derive(PartialEq, Eq)]
pub enum SocketAddr { V4(SocketAddrV4), V6(SocketAddrV6) }

impl vstd::std_specs::convert::FromSpecImpl<u32> for Ipv4Addr {
    open spec fn obeys_from_spec() -> bool { true }
    open spec fn from_spec(b: u32) -> Ipv4Addr { Ipv4Addr { bits: b } }
}
impl From<u32> for Ipv4Addr {
    fn from(b: u32) -> (r: Ipv4Addr) { Ipv4Addr { bits: b } }
}
impl vstd::std_specs::convert::FromSpecImpl<[u8; 16]> for Ipv6Addr {
    open spec fn obeys_from_spec() -> bool { true }
    open spec fn from_spec(b: [u8; 16]) -> Ipv6Addr { Ipv6Addr { octs: b } }
}
impl From<[u8; 16]> for Ipv6Addr {
    fn from(b: [u8; 16]) -> (r: Ipv6Addr) { Ipv6Addr { octs: b } }
}
impl Ipv4Addr {
    #[verifier::external_body]
    pub fn octets(&self) -> (r: [u8; 4]) ensures r@ == be32_bytes(self.bits) { unimplemented!() }
}
impl Ipv6Addr {
    pub fn octets(&self) -> (r: [u8; 16]) ensures r@ == self.octs@ { self.octs }
    /// std `to_ipv4` / `to_ipv4_mapped`: an IPv4 address for SOME IPv6 addresses (which ones is not modelled: the
    /// covered code must not depend on it to stay faithful to the destination)
    #[verifier::external_body]
    pub fn to_ipv4(&self) -> (r: Option<Ipv4Addr>) { unimplemented!() }
    #[verifier::external_body]
    pub fn to_ipv4_mapped(&self) -> (r: Option<Ipv4Addr>) { unimplemented!() }
}
impl SocketAddrV4 {
    pub fn new(ip: Ipv4Addr, port: u16) -> (r: SocketAddrV4) ensures r == (SocketAddrV4 { ip, port }) { SocketAddrV4 { ip, port } }
    pub fn ip(&self) -> (r: &Ipv4Addr) ensures *r == self.ip { &self.ip }
    pub fn port(&self) -> (r: u16) ensures r == self.port { self.port }
}
impl SocketAddrV6 {
    pub fn new(ip: Ipv6Addr, port: u16, flowinfo: u32, scope_id: u32) -> (r: SocketAddrV6) ensures r == (SocketAddrV6 { ip, port }) { SocketAddrV6 { ip, port } }
    pub fn ip(&self) -> (r: &Ipv6Addr) ensures *r == self.ip { &self.ip }
    pub fn port(&self) -> (r: u16) ensures r == self.port { self.port }
}

#[derive(PartialEq, Eq)]
pub enum IpAddr { V4(Ipv4Addr), V6(Ipv6Addr) }
impl SocketAddr {
    pub fn ip(&self) -> (r: IpAddr)
        ensures r == (match *self { SocketAddr::V4(a) => IpAddr::V4(a.ip), SocketAddr::V6(a) => IpAddr::V6(a.ip) })
    {
        match self { SocketAddr::V4(a) => IpAddr::V4(Ipv4Addr { bits: a.ip.bits }), SocketAddr::V6(a) => IpAddr::V6(Ipv6Addr { octs: a.ip.octs }) }
    }
    pub fn port(&self) -> (r: u16)
        ensures r == (match *self { SocketAddr::V4(a) => a.port, SocketAddr::V6(a) => a.port })
    {
        match self { SocketAddr::V4(a) => a.port, SocketAddr::V6(a) => a.port }
    }
}

impl vstd::std_specs::convert::FromSpecImpl<Ipv4Addr> for u32 {
    open spec fn obeys_from_spec() -> bool { true }
    open spec fn from_spec(a: Ipv4Addr) -> u32 { a.bits }
}
impl From<Ipv4Addr> for u32 {
    fn from(a: Ipv4Addr) -> (r: u32) { a.bits }
}
