// ---------------------------------------------------------------------------------------------
// Shared SPEC (not a dependency contract): the abstract view of a destination used by every codec unit, so that
// decoders and encoders of different protocols talk about the same value (composition of codec lemmas).

pub enum AddrV { NoAddr, Domain(Seq<u8>, u16), V4(u32, u16), V6(Seq<u8>, u16) }

pub open spec fn ta_view(a: TargetAddress) -> AddrV {
    match a {
        TargetAddress::DomainPort(h, p) => AddrV::Domain(string_bytes(h), p),
        TargetAddress::SocketAddr(SocketAddr::V4(s)) => AddrV::V4(s.ip.bits, s.port),
        TargetAddress::SocketAddr(SocketAddr::V6(s)) => AddrV::V6(s.ip.octs@, s.port),
        TargetAddress::Unknown => AddrV::NoAddr,
    }
}

pub open spec fn opt_ta_view(a: Option<TargetAddress>) -> AddrV {
    match a { Some(a) => ta_view(a), None => AddrV::NoAddr }
}

