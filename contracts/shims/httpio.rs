// ---------------------------------------------------------------------------------------------
// Dependency contract for common/http.rs: the aliases
//     type Reader<'a> = &'a mut (dyn AsyncBufRead + Send + Unpin);   type Writer<'a> = &'a mut (dyn AsyncWrite + Send + Unpin);
// are replaced by references to opaque shim objects (Verus has no `dyn`): tokio AsyncBufReadExt::read_line and
// AsyncWriteExt::{write, write_all, flush} after await-stripping (T4, A3, A7).

#[verifier::external_body]
pub struct DynReader { _p: Vec<u8> }
#[verifier::external_body]
pub struct DynWriter { _p: Vec<u8> }
pub type Reader<'a> = &'a mut DynReader;
pub type Writer<'a> = &'a mut DynWriter;

impl DynReader {
    /// bytes not yet consumed, in wire order (segmentation does not appear: read_line is independent of it)
    pub uninterp spec fn inp(&self) -> Seq<u8>;
    /// number of bytes consumed so far
    pub uninterp spec fn pos(&self) -> nat;

    /// appends everything up to and including the first LF, or all that is left when the input ends first;
    /// Ok(0) only at end of input
    #[verifier::external_body]
    pub fn read_line(&mut self, buf: &mut String) -> (r: IoResult<usize>)
        ensures
            r.is_ok() ==> {
                let n = r.unwrap() as int;
                &&& 0 <= n <= old(self).inp().len()
                &&& (n == 0 ==> old(self).inp().len() == 0)
                &&& string_bytes(*final(buf)) == string_bytes(*old(buf)) + old(self).inp().take(n)
                &&& final(self).inp() == old(self).inp().skip(n)
                &&& final(self).pos() == old(self).pos() + n
                &&& (first_index_of(old(self).inp(), 10u8, n - 1)
                     || (n == old(self).inp().len() && forall|j: int| 0 <= j < n ==> old(self).inp()[j] != 10u8))
            },
    { unimplemented!() }
}

impl DynWriter {
    pub uninterp spec fn written(&self) -> Seq<u8>;
    pub uninterp spec fn flushed_len(&self) -> nat;
    /// ghost log: how many buffers were handed over COMPLETELY (write_all), and the last of them
    pub uninterp spec fn nchunks(&self) -> nat;
    pub uninterp spec fn last_chunk(&self) -> Seq<u8>;

    #[verifier::external_body]
    pub fn write_all(&mut self, buf: &[u8]) -> (r: Result<(), IoError>)
        ensures
            r.is_ok() ==> final(self).written() == old(self).written() + buf@
                && final(self).nchunks() == old(self).nchunks() + 1 && final(self).last_chunk() == buf@,
            final(self).flushed_len() >= old(self).flushed_len(), final(self).flushed_len() <= final(self).written().len(),
    { unimplemented!() }
    /// may accept only a prefix: never counts as a complete chunk
    #[verifier::external_body]
    pub fn write(&mut self, buf: &[u8]) -> (r: Result<usize, IoError>)
        ensures
            r.is_ok() ==> 0 <= r.unwrap() <= buf@.len()
                && final(self).written() == old(self).written() + buf@.take(r.unwrap() as int)
                && final(self).nchunks() == old(self).nchunks() && final(self).last_chunk() == old(self).last_chunk(),
            final(self).flushed_len() >= old(self).flushed_len(), final(self).flushed_len() <= final(self).written().len(),
    { unimplemented!() }
    #[verifier::external_body]
    pub fn flush(&mut self) -> (r: Result<(), IoError>)
        ensures
            final(self).written() == old(self).written(), final(self).nchunks() == old(self).nchunks(),
            final(self).last_chunk() == old(self).last_chunk(),
            r.is_ok() ==> final(self).flushed_len() == final(self).written().len(),
            final(self).flushed_len() >= old(self).flushed_len(), final(self).flushed_len() <= final(self).written().len(),
    { unimplemented!() }
}

// ---------------------------------------------------------------------------------------------
// str / String text operations used by the HTTP head parser, as uninterpreted functions of the BYTES
// (so that "the parse is a function of the byte sequence" is expressible).

pub uninterp spec fn trim_end_spec(b: Seq<u8>) -> Seq<u8>;
pub uninterp spec fn split_ws_spec(b: Seq<u8>) -> Seq<Seq<u8>>;
pub uninterp spec fn splitn3_spec(b: Seq<u8>) -> Seq<Seq<u8>>;
pub uninterp spec fn starts_with_spec(b: Seq<u8>, p: Seq<u8>) -> bool;
pub uninterp spec fn split_once_colon_spec(b: Seq<u8>) -> Option<(Seq<u8>, Seq<u8>)>;
pub uninterp spec fn parse_u16_spec(b: Seq<u8>) -> Option<u16>;

#[verifier::external_body]
pub struct ParseIntError { _p: u8 }
impl<T> ResultExt<T> for Result<T, ParseIntError> {
    open spec fn rx_ok(&self) -> bool { self.is_ok() }
    open spec fn rx_val(&self) -> T { self->Ok_0 }
    #[verifier::external_body]
    fn context(self, msg: &str) -> (r: Result<T, Error>) { unimplemented!() }
}

pub trait VfStr {
    spec fn sb(&self) -> Seq<u8>;
    fn vf_trim_end(&self) -> (r: &str)
        ensures str_bytes(r) == trim_end_spec(self.sb()), str_bytes(r).len() <= self.sb().len();
    fn vf_is_empty(&self) -> (r: bool)
        ensures r == (self.sb().len() == 0);
    fn vf_split_ws(&self) -> (r: Vec<&str>)
        ensures r@.len() == split_ws_spec(self.sb()).len(),
                forall|i: int| 0 <= i < r@.len() ==> str_bytes(#[trigger] r@[i]) == split_ws_spec(self.sb())[i];
    fn vf_splitn3(&self) -> (r: Vec<&str>)
        ensures r@.len() == splitn3_spec(self.sb()).len(), r@.len() <= 3,
                forall|i: int| 0 <= i < r@.len() ==> str_bytes(#[trigger] r@[i]) == splitn3_spec(self.sb())[i];
    fn vf_starts_with(&self, p: &str) -> (r: bool)
        ensures r == starts_with_spec(self.sb(), str_bytes(p));
    fn vf_ends_with_lf(&self) -> (r: bool)
        ensures r == (self.sb().len() > 0 && self.sb()[self.sb().len() - 1] == 10u8);
    fn vf_to_string(&self) -> (r: String)
        ensures string_bytes(r) == self.sb();
    fn vf_parse_u16(&self) -> (r: Result<u16, ParseIntError>)
        ensures r.is_ok() == parse_u16_spec(self.sb()).is_some(), r.is_ok() ==> r->Ok_0 == parse_u16_spec(self.sb()).unwrap();
    fn vf_split_once_colon_or_err(&self) -> (r: Result<(&str, &str), Error>)
        ensures r.is_ok() == split_once_colon_spec(self.sb()).is_some(),
                r.is_ok() ==> str_bytes(r->Ok_0.0) == split_once_colon_spec(self.sb()).unwrap().0
                    && str_bytes(r->Ok_0.1) == split_once_colon_spec(self.sb()).unwrap().1;
}
impl VfStr for String {
    open spec fn sb(&self) -> Seq<u8> { string_bytes(*self) }
    #[verifier::external_body] fn vf_trim_end(&self) -> (r: &str) { unimplemented!() }
    #[verifier::external_body] fn vf_is_empty(&self) -> (r: bool) { unimplemented!() }
    #[verifier::external_body] fn vf_split_ws(&self) -> (r: Vec<&str>) { unimplemented!() }
    #[verifier::external_body] fn vf_splitn3(&self) -> (r: Vec<&str>) { unimplemented!() }
    #[verifier::external_body] fn vf_starts_with(&self, p: &str) -> (r: bool) { unimplemented!() }
    #[verifier::external_body] fn vf_ends_with_lf(&self) -> (r: bool) { unimplemented!() }
    #[verifier::external_body] fn vf_to_string(&self) -> (r: String) { unimplemented!() }
    #[verifier::external_body] fn vf_parse_u16(&self) -> (r: Result<u16, ParseIntError>) { unimplemented!() }
    #[verifier::external_body] fn vf_split_once_colon_or_err(&self) -> (r: Result<(&str, &str), Error>) { unimplemented!() }
}
impl VfStr for &str {
    open spec fn sb(&self) -> Seq<u8> { str_bytes(*self) }
    #[verifier::external_body] fn vf_trim_end(&self) -> (r: &str) { unimplemented!() }
    #[verifier::external_body] fn vf_is_empty(&self) -> (r: bool) { unimplemented!() }
    #[verifier::external_body] fn vf_split_ws(&self) -> (r: Vec<&str>) { unimplemented!() }
    #[verifier::external_body] fn vf_splitn3(&self) -> (r: Vec<&str>) { unimplemented!() }
    #[verifier::external_body] fn vf_starts_with(&self, p: &str) -> (r: bool) { unimplemented!() }
    #[verifier::external_body] fn vf_ends_with_lf(&self) -> (r: bool) { unimplemented!() }
    #[verifier::external_body] fn vf_to_string(&self) -> (r: String) { unimplemented!() }
    #[verifier::external_body] fn vf_parse_u16(&self) -> (r: Result<u16, ParseIntError>) { unimplemented!() }
    #[verifier::external_body] fn vf_split_once_colon_or_err(&self) -> (r: Result<(&str, &str), Error>) { unimplemented!() }
}

#[verifier::external_body]
pub fn vf_string_new() -> (r: String) ensures string_bytes(r) == Seq::<u8>::empty() { unimplemented!() }

/// `"\r\n".as_bytes()`
pub open spec fn crlf() -> Seq<u8> { seq![13u8, 10u8] }
#[verifier::external_body]
pub fn vf_crlf_bytes() -> (r: &'static [u8]) ensures r@ == crlf() { unimplemented!() }
