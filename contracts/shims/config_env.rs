// ---------------------------------------------------------------------------------------------
// Environment of unit `config_dispatch`: the per-kind constructors `connectors::<kind>::from_value` and
// `listeners::<kind>::from_value` (serde deserialisation of one config entry; trusted start-up code, DESIGN C18
// "not covered").  Each returns an ARBITRARY Result for every Value.  The unit json qualifies the calls
// (`direct::from_value(` -> `connectors::direct::from_value(`) because a Verus unit is one module and both
// dispatchers have a child module called `http` / `socks` / `quic`.

pub mod connectors {
    pub mod direct { use super::super::*;
        #[verifier::external_body] pub fn from_value(value: &Value) -> (r: Result<ConnectorRef, Error>) { unimplemented!() } }
    pub mod http { use super::super::*;
        #[verifier::external_body] pub fn from_value(value: &Value) -> (r: Result<ConnectorRef, Error>) { unimplemented!() } }
    pub mod socks { use super::super::*;
        #[verifier::external_body] pub fn from_value(value: &Value) -> (r: Result<ConnectorRef, Error>) { unimplemented!() } }
    pub mod loadbalance { use super::super::*;
        #[verifier::external_body] pub fn from_value(value: &Value) -> (r: Result<ConnectorRef, Error>) { unimplemented!() } }
    pub mod quic { use super::super::*;
        #[verifier::external_body] pub fn from_value(value: &Value) -> (r: Result<ConnectorRef, Error>) { unimplemented!() } }
}

pub mod listeners {
    pub mod http { use super::super::*;
        #[verifier::external_body] pub fn from_value(value: &Value) -> (r: Result<ListenerBox, Error>) { unimplemented!() } }
    pub mod socks { use super::super::*;
        #[verifier::external_body] pub fn from_value(value: &Value) -> (r: Result<ListenerBox, Error>) { unimplemented!() } }
    pub mod reverse { use super::super::*;
        #[verifier::external_body] pub fn from_value(value: &Value) -> (r: Result<ListenerBox, Error>) { unimplemented!() } }
    pub mod quic { use super::super::*;
        #[verifier::external_body] pub fn from_value(value: &Value) -> (r: Result<ListenerBox, Error>) { unimplemented!() } }
    pub mod tproxy { use super::super::*;
        #[verifier::external_body] pub fn from_value(value: &Value) -> (r: Result<ListenerBox, Error>) { unimplemented!() } }
}
