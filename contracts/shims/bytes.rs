// ---------------------------------------------------------------------------------------------
// Dependency contract: crate `bytes` 1.x  (assumption A2).  View = the readable bytes.
// Preconditions are the documented panic conditions of the crate.

pub open spec fn be16(b: Seq<u8>) -> u16 { ((b[0] as u16) << 8 | (b[1] as u16)) as u16 }
pub open spec fn be32(b: Seq<u8>) -> u32 {
    ((b[0] as u32) << 24 | (b[1] as u32) << 16 | (b[2] as u32) << 8 | (b[3] as u32)) as u32
}
pub open spec fn be16_bytes(x: u16) -> Seq<u8> { seq![(x >> 8) as u8, (x & 0xff) as u8] }
pub open spec fn be32_bytes(x: u32) -> Seq<u8> {
    seq![(x >> 24) as u8, ((x >> 16) & 0xff) as u8, ((x >> 8) & 0xff) as u8, (x & 0xff) as u8]
}

pub proof fn lemma_be16_roundtrip(x: u16)
    ensures be16(be16_bytes(x)) == x,
{
    assert(((((x >> 8) as u8) as u16) << 8 | (((x & 0xff) as u8) as u16)) as u16 == x) by (bit_vector);
}
pub proof fn lemma_be32_roundtrip(x: u32)
    ensures be32(be32_bytes(x)) == x,
{
    assert((((((x >> 24) as u8) as u32) << 24 | ((((x >> 16) & 0xff) as u8) as u32) << 16
        | ((((x >> 8) & 0xff) as u8) as u32) << 8 | (((x & 0xff) as u8) as u32))) as u32 == x) by (bit_vector);
}

#[verifier::external_body]
pub struct Bytes { _p: Vec<u8> }
#[verifier::external_body]
pub struct BytesMut { _p: Vec<u8> }

impl View for Bytes { type V = Seq<u8>; uninterp spec fn view(&self) -> Seq<u8>; }
impl View for BytesMut { type V = Seq<u8>; uninterp spec fn view(&self) -> Seq<u8>; }

impl Clone for Bytes {
    #[verifier::external_body]
    fn clone(&self) -> (r: Bytes) ensures r@ == self@ { unimplemented!() }
}

/// `bytes::Buf` as far as the extracted code uses it generically.
pub trait Buf: Sized {
    spec fn bview(&self) -> Seq<u8>;
    fn remaining(&self) -> (r: usize)
        ensures r == self.bview().len();
    fn has_remaining(&self) -> (r: bool)
        ensures r == (self.bview().len() > 0);
    /// `chunk()`: a contiguous prefix of the readable bytes, non-empty unless nothing remains (for Bytes / &[u8] it is
    /// everything, for chained buffers it may be shorter)
    fn chunk(&self) -> (r: &[u8])
        ensures r@.len() <= self.bview().len(), r@ == self.bview().subrange(0, r@.len() as int), (r@.len() == 0) == (self.bview().len() == 0);
    fn get_u8(&mut self) -> (r: u8)
        requires old(self).bview().len() >= 1,
        ensures r == old(self).bview()[0], final(self).bview() == old(self).bview().subrange(1, old(self).bview().len() as int);
    fn get_u16(&mut self) -> (r: u16)
        requires old(self).bview().len() >= 2,
        ensures r == be16(old(self).bview()), final(self).bview() == old(self).bview().subrange(2, old(self).bview().len() as int);
    fn get_u32(&mut self) -> (r: u32)
        requires old(self).bview().len() >= 4,
        ensures r == be32(old(self).bview()), final(self).bview() == old(self).bview().subrange(4, old(self).bview().len() as int);
}

impl Buf for Bytes {
    open spec fn bview(&self) -> Seq<u8> { self@ }
    #[verifier::external_body]
    fn remaining(&self) -> (r: usize) { unimplemented!() }
    #[verifier::external_body]
    fn has_remaining(&self) -> (r: bool) { unimplemented!() }
    #[verifier::external_body]
    fn chunk(&self) -> (r: &[u8]) { unimplemented!() }
    #[verifier::external_body]
    fn get_u8(&mut self) -> (r: u8) { unimplemented!() }
    #[verifier::external_body]
    fn get_u16(&mut self) -> (r: u16) { unimplemented!() }
    #[verifier::external_body]
    fn get_u32(&mut self) -> (r: u32) { unimplemented!() }
}

impl Bytes {
    #[verifier::external_body]
    pub fn new() -> (r: Bytes) ensures r@ == Seq::<u8>::empty() { unimplemented!() }
    #[verifier::external_body]
    pub fn len(&self) -> (r: usize) ensures r == self@.len() { unimplemented!() }
    #[verifier::external_body]
    pub fn is_empty(&self) -> (r: bool) ensures r == (self@.len() == 0) { unimplemented!() }
    /// panics if `at > len`
    #[verifier::external_body]
    pub fn split_to(&mut self, at: usize) -> (r: Bytes)
        requires at <= old(self)@.len(),
        ensures r@ == old(self)@.subrange(0, at as int),
                final(self)@ == old(self)@.subrange(at as int, old(self)@.len() as int),
    { unimplemented!() }
    /// panics if `cnt > len`
    #[verifier::external_body]
    pub fn advance(&mut self, cnt: usize)
        requires cnt <= old(self)@.len(),
        ensures final(self)@ == old(self)@.subrange(cnt as int, old(self)@.len() as int),
    { unimplemented!() }
    /// panics if fewer than dst.len() bytes remain
    #[verifier::external_body]
    pub fn copy_to_slice(&mut self, dst: &mut [u8])
        requires old(dst)@.len() <= old(self)@.len(),
        ensures final(dst)@ == old(self)@.subrange(0, old(dst)@.len() as int),
                final(self)@ == old(self)@.subrange(old(dst)@.len() as int, old(self)@.len() as int),
    { unimplemented!() }
    #[verifier::external_body]
    pub fn to_vec(&self) -> (r: Vec<u8>) ensures r@ == self@ { unimplemented!() }
    #[verifier::external_body]
    pub fn as_slice(&self) -> (r: &[u8]) ensures r@ == self@ { unimplemented!() }
}

impl BytesMut {
    /// writable capacity (len <= cap always); put_* grow it on demand, advance_mut does not
    pub uninterp spec fn cap(&self) -> nat;
    #[verifier::external_body]
    pub fn with_capacity(cap: usize) -> (r: BytesMut) ensures r@ == Seq::<u8>::empty(), r.cap() >= cap { unimplemented!() }
    #[verifier::external_body]
    pub fn len(&self) -> (r: usize) ensures r == self@.len() { unimplemented!() }
    #[verifier::external_body]
    pub fn put_u8(&mut self, x: u8) ensures final(self)@ == old(self)@.push(x), final(self).cap() >= old(self).cap(), final(self).cap() >= final(self)@.len() { unimplemented!() }
    #[verifier::external_body]
    pub fn put_u16(&mut self, x: u16) ensures final(self)@ == old(self)@ + be16_bytes(x), final(self).cap() >= old(self).cap(), final(self).cap() >= final(self)@.len() { unimplemented!() }
    #[verifier::external_body]
    pub fn put_u32(&mut self, x: u32) ensures final(self)@ == old(self)@ + be32_bytes(x), final(self).cap() >= old(self).cap(), final(self).cap() >= final(self)@.len() { unimplemented!() }
    #[verifier::external_body]
    pub fn put_slice(&mut self, s: &[u8]) ensures final(self)@ == old(self)@ + s@, final(self).cap() >= old(self).cap(), final(self).cap() >= final(self)@.len() { unimplemented!() }
    #[verifier::external_body]
    pub fn extend(&mut self, b: &Bytes) ensures final(self)@ == old(self)@ + b@ { unimplemented!() }
    #[verifier::external_body]
    pub fn freeze(self) -> (r: Bytes) ensures r@ == self@ { unimplemented!() }
    /// panics if `at > len`
    #[verifier::external_body]
    pub fn split_to(&mut self, at: usize) -> (r: BytesMut)
        requires at <= old(self)@.len(),
        ensures r@ == old(self)@.subrange(0, at as int),
                final(self)@ == old(self)@.subrange(at as int, old(self)@.len() as int),
    { unimplemented!() }
    /// `split()`: takes all readable bytes, leaves self empty
    #[verifier::external_body]
    pub fn split(&mut self) -> (r: BytesMut)
        ensures r@ == old(self)@, final(self)@ == Seq::<u8>::empty(), final(self).cap() + old(self)@.len() == old(self).cap(),
    { unimplemented!() }
    /// `split_off(at)`: panics if at > capacity.  self keeps [0, min(at,len)), the result gets [at, len) (empty if at >= len).
    #[verifier::external_body]
    pub fn split_off(&mut self, at: usize) -> (r: BytesMut)
        requires at <= old(self).cap(),
        ensures
            at <= old(self)@.len() ==> final(self)@ == old(self)@.subrange(0, at as int) && r@ == old(self)@.subrange(at as int, old(self)@.len() as int),
            at > old(self)@.len() ==> final(self)@ == old(self)@ && r@ == Seq::<u8>::empty(),
    { unimplemented!() }
    /// unsafe `set_len(n)`: caller must guarantee n <= capacity; exposes arbitrary bytes beyond the old length
    #[verifier::external_body]
    pub unsafe fn set_len(&mut self, n: usize)
        requires n <= old(self).cap(),
        ensures final(self)@.len() == n, final(self).cap() == old(self).cap(),
            forall|i: int| 0 <= i < n && i < old(self)@.len() ==> final(self)@[i] == old(self)@[i],
    { unimplemented!() }
    #[verifier::external_body]
    pub fn unsplit(&mut self, other: BytesMut)
        ensures final(self)@ == old(self)@ + other@,
    { unimplemented!() }
    #[verifier::external_body]
    pub fn reserve(&mut self, n: usize) ensures final(self)@ == old(self)@, final(self).cap() >= old(self)@.len() + n { unimplemented!() }
    #[verifier::external_body]
    pub fn truncate(&mut self, n: usize)
        ensures final(self)@ == (if n <= old(self)@.len() { old(self)@.subrange(0, n as int) } else { old(self)@ }),
    { unimplemented!() }
    #[verifier::external_body]
    pub fn as_slice(&self) -> (r: &[u8]) ensures r@ == self@ { unimplemented!() }
}

/// `unsafe { b.advance_mut(n) }` followed by `src.copy_to_slice(&mut b[from..])` in MakeFragments::next:
/// the contract of the *pair* is stated on the second call; advance_mut alone exposes n arbitrary bytes.
#[verifier::external_body]
pub fn bytesmut_advance_mut(b: &mut BytesMut, n: usize)
    requires old(b)@.len() + n <= old(b).cap(),
    ensures final(b).cap() == old(b).cap(), final(b)@.len() == old(b)@.len() + n,
            final(b)@.subrange(0, old(b)@.len() as int) == old(b)@,
{ unimplemented!() }

/// `src.copy_to_slice(&mut dst[from..])`: panics if from > dst.len() (slice index) or src has fewer than
/// dst.len()-from bytes; fills dst[from..] with the next bytes of src.
#[verifier::external_body]
pub fn buf_copy_to_tail<T: Buf>(src: &mut T, dst: &mut BytesMut, from: usize)
    requires from <= old(dst)@.len(),
             old(dst)@.len() - from <= old(src).bview().len(),
    ensures final(dst)@ == old(dst)@.subrange(0, from as int) + old(src).bview().subrange(0, old(dst)@.len() - from),
            final(src).bview() == old(src).bview().subrange(old(dst)@.len() - from, old(src).bview().len() as int),
{ unimplemented!() }

impl<'a> Buf for &'a [u8] {
    open spec fn bview(&self) -> Seq<u8> { (*self)@ }
    #[verifier::external_body]
    fn remaining(&self) -> (r: usize) { unimplemented!() }
    #[verifier::external_body]
    fn has_remaining(&self) -> (r: bool) { unimplemented!() }
    #[verifier::external_body]
    fn chunk(&self) -> (r: &[u8]) { unimplemented!() }
    #[verifier::external_body]
    fn get_u8(&mut self) -> (r: u8) { unimplemented!() }
    #[verifier::external_body]
    fn get_u16(&mut self) -> (r: u16) { unimplemented!() }
    #[verifier::external_body]
    fn get_u32(&mut self) -> (r: u32) { unimplemented!() }
}

/// `&b[from..to]` on Bytes: panics unless from <= to <= len
#[verifier::external_body]
pub fn bytes_slice(b: &Bytes, from: usize, to: usize) -> (r: &[u8])
    requires from <= to <= b@.len(),
    ensures r@ == b@.subrange(from as int, to as int),
{ unimplemented!() }
