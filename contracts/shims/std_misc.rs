// ---------------------------------------------------------------------------------------------
// Dependency contracts: std::sync::atomic, std::time, std::hash::DefaultHasher, rand (assumptions A2, A5).
// Used by units: loadbalance, timeouts.
//
// ATOMICS (A5).  An atomic is a cell with a ghost value `@`.  `load` returns it; the mutating operations
// (`store`, `fetch_add`) take `&mut self` HERE although the real API takes `&self`: Verus has no sound way
// to let a `&self` method change a ghost value, so units that call them rewrite the *receiver of the calling
// repo function* from `&self` to `&mut self` (transformation T13, listed in the unit json).  This is the
// sequential model of one linearizable operation: `fetch_add` returns the previous value `t` (the caller's
// "ticket") and the counter becomes `t + d` wrapping.  Concurrency enters only through this contract
// (distinct callers get distinct consecutive tickets); memory ordering is not analysed.

pub enum Ordering { Relaxed, Release, Acquire, AcqRel, SeqCst }

pub open spec fn wrap_add_usize(a: usize, b: usize) -> usize {
    if a + b > usize::MAX { (a + b - usize::MAX - 1) as usize } else { (a + b) as usize }
}

#[verifier::external_body]
pub struct AtomicUsize { _p: usize }
#[verifier::external_body]
pub struct AtomicU64 { _p: u64 }

impl View for AtomicUsize { type V = usize; uninterp spec fn view(&self) -> usize; }
impl View for AtomicU64 { type V = u64; uninterp spec fn view(&self) -> u64; }

impl AtomicUsize {
    #[verifier::external_body]
    pub fn new(v: usize) -> (r: AtomicUsize) ensures r@ == v { unimplemented!() }
    #[verifier::external_body]
    pub fn load(&self, o: Ordering) -> (r: usize) ensures r == self@ { unimplemented!() }
    #[verifier::external_body]
    pub fn store(&mut self, v: usize, o: Ordering) ensures final(self)@ == v { unimplemented!() }
    /// never panics: wraps around on overflow (std documentation)
    #[verifier::external_body]
    pub fn fetch_add(&mut self, d: usize, o: Ordering) -> (t: usize)
        ensures t == old(self)@, final(self)@ == wrap_add_usize(old(self)@, d),
    { unimplemented!() }
}

impl AtomicU64 {
    #[verifier::external_body]
    pub fn new(v: u64) -> (r: AtomicU64) ensures r@ == v { unimplemented!() }
    #[verifier::external_body]
    pub fn load(&self, o: Ordering) -> (r: u64) ensures r == self@ { unimplemented!() }
    #[verifier::external_body]
    pub fn store(&mut self, v: u64, o: Ordering) ensures final(self)@ == v { unimplemented!() }
}

// ---------------------------------------------------------------------------------------------
// std::time.  An instant of the wall clock is a number of nanoseconds since the
// Unix epoch (`ns()`, a nat: Linux refuses to set the clock before 1970, so `duration_since(UNIX_EPOCH)`
// on a value obtained from `now()` cannot fail -- that is part of assumption A5).
// The wall clock is NOT monotonic: two successive `now()` are unrelated (NTP step, settimeofday).
// `wall_clock_reading(ms)` is an uninterpreted marker: "ms is a millisecond reading that `SystemTime::now()`
// returned".  The only way for a verified function to establish it is to call `now()`, so a postcondition
// `exists now: wall_clock_reading(now) && ...` pins `now` to a reading the function really took.

pub uninterp spec fn wall_clock_reading(ms: nat) -> bool;

#[verifier::external_body]
pub struct SystemTime { _p: u64 }
#[verifier::external_body]
pub struct SystemTimeError { _p: u64 }
#[verifier::external_body]
pub struct Duration { _p: u64 }

impl std::fmt::Debug for SystemTimeError {
    #[verifier::external_body]
    fn fmt(&self, f: &mut std::fmt::Formatter<'_>) -> std::fmt::Result { unimplemented!() }
}

impl Duration {
    /// length in nanoseconds; std: secs: u64 + nanos < 1e9
    pub uninterp spec fn ns(&self) -> nat;
    pub open spec fn millis(&self) -> nat { self.ns() / 1_000_000 }
    #[verifier::external_body]
    pub fn is_zero(&self) -> (r: bool) ensures r == (self.ns() == 0) { unimplemented!() }
    #[verifier::external_body]
    pub fn as_millis(&self) -> (r: u128) ensures r == self.millis() { unimplemented!() }
    #[verifier::external_body]
    pub fn from_secs(s: u64) -> (r: Duration) ensures r.ns() == s * 1_000_000_000 { unimplemented!() }
    #[verifier::external_body]
    pub fn from_millis(s: u64) -> (r: Duration) ensures r.ns() == s * 1_000_000 { unimplemented!() }
}

impl SystemTime {
    pub uninterp spec fn ns(&self) -> nat;
    pub open spec fn millis(&self) -> nat { self.ns() / 1_000_000 }

    #[verifier::external_body]
    pub exec const UNIX_EPOCH: SystemTime ensures Self::UNIX_EPOCH.ns() == 0 { SystemTime { _p: 0 } }

    /// ANY reading: no relation to earlier readings.  The reading fits 64 bits of milliseconds
    /// (true until the year 584 554 051; assumption A5).
    #[verifier::external_body]
    pub fn now() -> (r: SystemTime)
        ensures wall_clock_reading(r.millis()), r.millis() <= u64::MAX,
    { unimplemented!() }

    /// Err iff `earlier` is later than self
    #[verifier::external_body]
    pub fn duration_since(&self, earlier: SystemTime) -> (r: Result<Duration, SystemTimeError>)
        ensures
            r.is_ok() <==> self.ns() >= earlier.ns(),
            r.is_ok() ==> r.unwrap().ns() == self.ns() - earlier.ns(),
    { unimplemented!() }
}

// ---------------------------------------------------------------------------------------------
// std::collections::hash_map::DefaultHasher: SipHash-1-3 with a FIXED zero key (`DefaultHasher::new()`), so
// `finish` is a pure function of the sequence of items fed since `new()`.  Modelled functionally:
// state = fold of an uninterpreted step function over uninterpreted item identities.

pub uninterp spec fn hasher_init() -> int;
pub uninterp spec fn hasher_step(state: int, item: int) -> int;
pub uninterp spec fn hasher_finish(state: int) -> u64;

#[verifier::external_body]
pub struct DefaultHasher { _p: u64 }

impl DefaultHasher {
    pub uninterp spec fn state(&self) -> int;
    #[verifier::external_body]
    pub fn new() -> (r: DefaultHasher) ensures r.state() == hasher_init() { unimplemented!() }
    #[verifier::external_body]
    pub fn finish(&self) -> (r: u64) ensures r == hasher_finish(self.state()) { unimplemented!() }
}

// ---------------------------------------------------------------------------------------------
// rand 0.8: `thread_rng()`, `SliceRandom::choose`.  `choose` returns None iff the slice is empty, otherwise a
// reference to one of its elements.  That every element has non-zero probability is rand's and is NOT
// expressible as a contract (trusted, DESIGN C17).

#[verifier::external_body]
pub struct ThreadRng { _p: u64 }

#[verifier::external_body]
pub fn thread_rng() -> (r: ThreadRng) { unimplemented!() }

pub trait SliceRandom<T> {
    spec fn sr_view(&self) -> Seq<T>;
    fn choose(&self, rng: &mut ThreadRng) -> (r: Option<&T>)
        ensures
            self.sr_view().len() == 0 ==> r.is_none(),
            self.sr_view().len() > 0 ==> r.is_some() && exists|i: int| 0 <= i < self.sr_view().len() && *r.unwrap() == #[trigger] self.sr_view()[i];
}

impl<T> SliceRandom<T> for Vec<T> {
    open spec fn sr_view(&self) -> Seq<T> { self@ }
    #[verifier::external_body]
    fn choose(&self, rng: &mut ThreadRng) -> (r: Option<&T>) { unimplemented!() }
}
