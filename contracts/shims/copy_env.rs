// ---------------------------------------------------------------------------------------------
// Dependency contract for src/copy.rs drain_buffers: `IOBufStream` = tokio BufStream over the socket.
//   buffered(): bytes already read from the peer but not yet consumed by the handshake parser (BufReader::buffer())
//   written():  bytes accepted for the peer so far; flushed_len(): how many of them left the BufWriter

#[verifier::external_body]
pub struct IOBufStream { _p: u8 }
impl IOBufStream {
    pub uninterp spec fn buffered(&self) -> Seq<u8>;
    pub uninterp spec fn written(&self) -> Seq<u8>;
    pub uninterp spec fn flushed_len(&self) -> nat;

    #[verifier::external_body]
    pub fn buffer(&self) -> (r: &[u8]) ensures r@ == self.buffered() { unimplemented!() }
    #[verifier::external_body]
    pub fn write_all(&mut self, b: &[u8]) -> (r: IoResult<()>)
        ensures final(self).buffered() == old(self).buffered(),
                r.is_ok() ==> final(self).written() == old(self).written() + b@,
                final(self).flushed_len() >= old(self).flushed_len(), final(self).flushed_len() <= final(self).written().len(),
    { unimplemented!() }
    #[verifier::external_body]
    pub fn flush(&mut self) -> (r: IoResult<()>)
        ensures final(self).buffered() == old(self).buffered(), final(self).written() == old(self).written(),
                r.is_ok() ==> final(self).flushed_len() == final(self).written().len(),
                final(self).flushed_len() >= old(self).flushed_len(), final(self).flushed_len() <= final(self).written().len(),
    { unimplemented!() }
}
