//@@ outside-verus
// Dependency contracts for the `milu` rule-language units (C08, rule part of C18).
// Self-contained: the milu units do not use prelude.rs.
//
// Macros (T9).  Arguments are NOT evaluated (assumption A8: Display/Debug impls do not panic).
//  * `format_args!` shadows the compiler builtin: rustc's expansion of bail!/format!/err_msg leaves
//    `::easy_error::err_msg(format_args!("..", a, b))` in the text; the message is irrelevant to every contract.
//  * `bail!` (easy_error), `trace!`/`warn!` (tracing) are used by the hand-written items extracted directly from
//    stdlib.rs / script_ext.rs.
macro_rules! format_args { ($($t:tt)*) => { vf_fmt_args() } }
macro_rules! format { ($($t:tt)*) => { vf_format() } }
macro_rules! bail { ($($t:tt)*) => { return Err(vf_err_msg(vf_fmt_args())) } }
macro_rules! trace { ($($t:tt)*) => { () } }
macro_rules! warn { ($($t:tt)*) => { () } }
//@@ inside-verus
use vstd::arithmetic::div_mod::{rust_div, rust_rem};
use std::sync::Arc;
use std::convert::{TryFrom, TryInto};

// =============================================================================================
// WHAT IS SHIMMED (trusted), and what is NOT:
//  * extracted from the compiler's expansion of /repo/milu on every run (NOT shimmed): `enum Value`, `enum Type`,
//    `struct Call`, the `cast_value!`-generated `impl TryFrom<Value> for i64|bool|String|Arc<Vec<Value>>` and
//    `impl From<..> for Value`, the builtin structs and their `signature`/`call` bodies.
//  * shimmed here:
//      - `easy_error::Error`            -> unit struct `Error {}` (all errors equal: contracts only say Ok / Err)
//      - `NativeObjectRef = Box<dyn NativeObject + Send + Sync>` -> opaque struct (Verus has no `dyn`)
//      - `ScriptContextRef = Arc<ScriptContext>` (HashMap scopes)  -> opaque struct with `Clone` (r == self)
//      - the *evaluator* entry points `Value::{type_of,value_of,real_type_of,real_value_of}` (script.rs:288-367;
//        `dyn` dispatch + HashMap, outside Verus): contract = the INDUCTION HYPOTHESIS of type soundness
//        (DESIGN C08: "whole-language induction not mechanised").  See `impl Value` below.
//      - derived `Clone`/`PartialEq` of `Value`, hand-written `PartialEq for Type` (recursion through Box/Vec/Arc `==`).
//        `Type::eq` and `Value::eq` have NO postcondition: every contract holds whatever they return.
//      - std: `i64::checked_neg`, `String` comparison operators, `bool` ordering operators, `Display for Value`.
// =============================================================================================

/// `easy_error::Error`.  The message/cause chain is abstracted to ONE bit: was this error made by a failed
/// `cast_value!` conversion (`TryFrom<Value>`: "unable to cast .. into ..") -- the run-time TYPE error that the checker
/// is supposed to exclude -- or is it one of the dynamic errors (parse failure, division by zero, bad index, ...)?
pub struct Error { pub type_mismatch: bool }
/// "not a type error": Ok, or an error that no failed cast produced
pub open spec fn no_type_err<T>(r: Result<T, Error>) -> bool { r is Err ==> !r->Err_0.type_mismatch }

pub struct VfFmtArgs {}
pub fn vf_fmt_args() -> (r: VfFmtArgs) { VfFmtArgs {} }

#[verifier::external_body]
pub fn vf_format() -> (r: String) { unimplemented!() }

/// `easy_error::err_msg(..)`
pub fn vf_err_msg(m: VfFmtArgs) -> (r: Error) ensures !r.type_mismatch { Error { type_mismatch: false } }
/// the same constructor inside the `impl TryFrom<Value> for T` bodies (rewritten there, see the unit files)
pub fn vf_cast_err_msg(m: VfFmtArgs) -> (r: Error) ensures r.type_mismatch { Error { type_mismatch: true } }
/// `easy_error::err_msg("literal")`
pub fn err_msg(m: &str) -> (r: Error) ensures !r.type_mismatch { Error { type_mismatch: false } }

/// `panic!(..)` as left by the expansion (`::std::rt::begin_panic(..)`): reaching it is a failed obligation.
#[verifier::external_body]
pub fn vf_panic(m: &str) -> !
    requires false,
{ unimplemented!() }

/// `easy_error::ResultExt::context` : Ok stays the same Ok, Err becomes an `easy_error::Error`.
pub trait ResultExt<T> {
    fn context(self, m: &str) -> (r: Result<T, Error>);
    fn context_s(self, m: String) -> (r: Result<T, Error>);
}
/// `context` on an error of a dependency (std parse error, regex error): the new easy_error is a dynamic error
macro_rules! vf_context_dynamic { ($($e:ty),*) => { verus! { $(
impl<T> ResultExt<T> for Result<T, $e> {
    #[verifier::external_body]
    fn context(self, m: &str) -> (r: Result<T, Error>)
        ensures self is Ok ==> r == Ok::<T, Error>(self->Ok_0), self is Err ==> (r is Err && !r->Err_0.type_mismatch),
    { unimplemented!() }
    #[verifier::external_body]
    fn context_s(self, m: String) -> (r: Result<T, Error>)
        ensures self is Ok ==> r == Ok::<T, Error>(self->Ok_0), self is Err ==> (r is Err && !r->Err_0.type_mismatch),
    { unimplemented!() }
} )* } } }
vf_context_dynamic!(VfParseIntError, VfRegexError);
/// `context` on an easy_error keeps what it was (the cause chain is the same error)
impl<T> ResultExt<T> for Result<T, Error> {
    #[verifier::external_body]
    fn context(self, m: &str) -> (r: Result<T, Error>)
        ensures self is Ok ==> r == Ok::<T, Error>(self->Ok_0), self is Err ==> (r is Err && r->Err_0.type_mismatch == self->Err_0.type_mismatch),
    { unimplemented!() }
    #[verifier::external_body]
    fn context_s(self, m: String) -> (r: Result<T, Error>)
        ensures self is Ok ==> r == Ok::<T, Error>(self->Ok_0), self is Err ==> (r is Err && r->Err_0.type_mismatch == self->Err_0.type_mismatch),
    { unimplemented!() }
}

/// `Box<dyn NativeObject + Send + Sync>` (script.rs:171)
#[verifier::external_body]
pub struct NativeObjectRef { _p: u8 }

/// `Arc<ScriptContext>` (script.rs:187-192): parent chain + HashMap of variables.
#[verifier::external_body]
pub struct ScriptContextRef { _p: u8 }
impl Clone for ScriptContextRef {
    #[verifier::external_body]
    fn clone(&self) -> (r: ScriptContextRef) ensures r == *self { unimplemented!() }
}

// ---------------------------------------------------------------------------------------------
// std
pub assume_specification [i64::checked_neg] (a: i64) -> (r: Option<i64>)
    ensures r == (if a == i64::MIN { None::<i64> } else { Some((0 - a) as i64) });

pub assume_specification [i64::unsigned_abs] (a: i64) -> (r: u64)
    ensures r == (if a >= 0 { a as int } else { 0 - a });

/// lexicographic byte order of `String` (std `PartialOrd for String`): uninterpreted, total functions.
pub uninterp spec fn str_lt(a: String, b: String) -> bool;
#[verifier::external_body]
pub fn vf_str_gt(a: &String, b: &String) -> (r: bool) ensures r == str_lt(*b, *a) { unimplemented!() }
#[verifier::external_body]
pub fn vf_str_ge(a: &String, b: &String) -> (r: bool) ensures r == !str_lt(*a, *b) { unimplemented!() }
#[verifier::external_body]
pub fn vf_str_lt(a: &String, b: &String) -> (r: bool) ensures r == str_lt(*a, *b) { unimplemented!() }
#[verifier::external_body]
pub fn vf_str_le(a: &String, b: &String) -> (r: bool) ensures r == !str_lt(*b, *a) { unimplemented!() }
#[verifier::external_body]
pub fn vf_str_eq(a: &String, b: &String) -> (r: bool) ensures r == (*a == *b) { unimplemented!() }
#[verifier::external_body]
pub fn vf_str_ne(a: &String, b: &String) -> (r: bool) ensures r == (*a != *b) { unimplemented!() }
/// std `PartialOrd for bool`: false < true  (Verus 0.2026.09.13 generates ill-typed AIR for `bool > bool`)
pub fn vf_bool_gt(a: bool, b: bool) -> (r: bool) ensures r == (a && !b) { a && !b }
pub fn vf_bool_ge(a: bool, b: bool) -> (r: bool) ensures r == (a || !b) { a || !b }
pub fn vf_bool_lt(a: bool, b: bool) -> (r: bool) ensures r == (!a && b) { !a && b }
pub fn vf_bool_le(a: bool, b: bool) -> (r: bool) ensures r == (!a || b) { !a || b }
pub fn vf_bool_eq(a: bool, b: bool) -> (r: bool) ensures r == (a == b) { a == b }
pub fn vf_bool_ne(a: bool, b: bool) -> (r: bool) ensures r == (a != b) { a != b }

// ---------------------------------------------------------------------------------------------
// Typing judgement used by the contracts ("v is a value of type t"), shallow on containers:
// arrays/tuples hold *unevaluated* member expressions, so membership typing is static and not expressed here.
pub open spec fn has_type(v: Value, t: Type) -> bool {
    match t {
        Type::Any => true,
        Type::String => v is String,
        Type::Integer => v is Integer,
        Type::Boolean => v is Boolean,
        Type::Array(_) => v is Array,
        Type::Tuple(_) => v is Tuple,
        Type::NativeObject(_) => v is NativeObject,
    }
}

/// a fully evaluated value: what `value_of` / `real_value_of` return (never an identifier or a pending call)
pub open spec fn is_plain(v: Value) -> bool { !(v is Identifier) && !(v is OpCall) }

// Specification-level evaluator / checker: uninterpreted functions of (expression, context).
pub uninterp spec fn type_spec(v: Value, ctx: ScriptContextRef) -> Result<Type, Error>;
pub uninterp spec fn real_type_spec(v: Value, ctx: ScriptContextRef) -> Result<Type, Error>;
pub uninterp spec fn value_spec(v: Value, ctx: ScriptContextRef) -> Result<Value, Error>;
pub uninterp spec fn real_value_spec(v: Value, ctx: ScriptContextRef) -> Result<Value, Error>;

impl Value {
    // INDUCTION HYPOTHESIS (assumed, not proved): evaluating a sub-expression yields a plain value whose type is
    // the one the checker computed for it, or an error.  Each builtin is verified to *preserve* this statement.
    #[verifier::external_body]
    pub fn type_of(&self, ctx: ScriptContextRef) -> (r: Result<Type, Error>)
        ensures r == type_spec(*self, ctx),
    { unimplemented!() }
    #[verifier::external_body]
    pub fn real_type_of(&self, ctx: ScriptContextRef) -> (r: Result<Type, Error>)
        ensures r == real_type_spec(*self, ctx),
    { unimplemented!() }
    #[verifier::external_body]
    pub fn value_of(&self, ctx: ScriptContextRef) -> (r: Result<Value, Error>)
        ensures r == value_spec(*self, ctx),
            r is Ok ==> is_plain(r->Ok_0),
            (r is Ok && type_spec(*self, ctx) is Ok) ==> has_type(r->Ok_0, type_spec(*self, ctx)->Ok_0),
    { unimplemented!() }
    #[verifier::external_body]
    pub fn real_value_of(&self, ctx: ScriptContextRef) -> (r: Result<Value, Error>)
        ensures r == real_value_spec(*self, ctx),
            r is Ok ==> is_plain(r->Ok_0),
            (r is Ok && real_type_spec(*self, ctx) is Ok) ==> has_type(r->Ok_0, real_type_spec(*self, ctx)->Ok_0),
    { unimplemented!() }
    /// `ToString::to_string` through `impl Display for Value` (script.rs:439-469; iterator adapters) -- A8
    #[verifier::external_body]
    pub fn vf_to_string(&self) -> (r: String) { unimplemented!() }
}

// ---- "accepted by the checker => no run-time TYPE error" (C08), per builtin:
//   signature  Ok  ==>  the static type of every typed parameter is the declared scalar type or Any      (sig_arg)
//   call: static type exactly the declared one, sub-evaluations free of type errors  ==>  no type error  (arg_is / no_type_err)
// The two meet in the induction hypothesis of shims/milu.rs (a value has the static type of its expression).
// Arguments whose static type is `Any` are outside the claim (nothing is known about their values).
pub open spec fn rt(args: Seq<Value>, i: int, ctx: ScriptContextRef) -> Result<Type, Error> {
    if 0 <= i < args.len() { real_type_spec(args[i], ctx) } else { Err(Error { type_mismatch: false }) }
}
pub open spec fn sig_arg(args: Seq<Value>, i: int, ctx: ScriptContextRef, want: Type) -> bool {
    rt(args, i, ctx) is Ok && scalar_ok(rt(args, i, ctx)->Ok_0, want)
}
pub open spec fn arg_is(args: Seq<Value>, i: int, ctx: ScriptContextRef, want: Type) -> bool {
    rt(args, i, ctx) is Ok && rt(args, i, ctx)->Ok_0 == want
}
/// loop invariant of every generated `signature`: the types collected so far are the static types of the arguments
pub open spec fn targs_ok(targs: Seq<Type>, args: Seq<Value>, n: int, ctx: ScriptContextRef) -> bool {
    targs.len() == n && forall|j: int| 0 <= j < n ==> real_type_spec(#[trigger] args[j], ctx) is Ok && real_type_spec(args[j], ctx)->Ok_0 == targs[j]
}
/// what the i-th argument evaluates to (a missing argument is a dynamic error)
pub open spec fn arg_value(args: Seq<Value>, i: int, ctx: ScriptContextRef) -> Result<Value, Error> {
    if 0 <= i < args.len() { real_value_spec(args[i], ctx) } else { Err(Error { type_mismatch: false }) }
}

/// `#[derive(Clone)]` on Value
impl Clone for Value {
    #[verifier::external_body]
    fn clone(&self) -> (r: Value) ensures r == *self { unimplemented!() }
}
/// `#[derive(PartialEq)]` on Value (NativeObject compares by hash): no postcondition
impl PartialEq for Value {
    #[verifier::external_body]
    fn eq(&self, other: &Value) -> (r: bool) { unimplemented!() }
}
/// hand-written `impl PartialEq for Type` (script.rs:31-47; `Any` equals everything).  Only the scalar rows of its
/// match are stated (trusted, read off the source): against String / Integer / Boolean the answer is "same scalar or
/// Any".  Nothing is said about Array / Tuple / NativeObject (recursion through Box / Vec / Arc `==`).
pub open spec fn scalar_ok(t: Type, want: Type) -> bool { t is Any || t == want }
impl PartialEq for Type {
    #[verifier::external_body]
    fn eq(&self, other: &Type) -> (r: bool)
        ensures
            (*other is String || *other is Integer || *other is Boolean) ==> (r <==> scalar_ok(*self, *other)),
            (*self is String || *self is Integer || *self is Boolean) ==> (r <==> scalar_ok(*other, *self)),
    { unimplemented!() }
}

// ---------------------------------------------------------------------------------------------
// Spec side of the `cast_value!`-generated conversions.  NOT an assumption: every milu unit extracts the
// `impl TryFrom<Value> for T` / `impl From<T> for Value` bodies from the compiler's expansion, and vstd's
// postcondition on TryFrom::try_from / From::from checks those bodies against the functions below; callers of
// `try_into()` / `into()` then use them.  (A unit that lists this shim MUST extract these impls.)
impl vstd::std_specs::convert::TryFromSpecImpl<Value> for i64 {
    open spec fn obeys_try_from_spec() -> bool { true }
    open spec fn try_from_spec(x: Value) -> Result<i64, Error> {
        match x { Value::Integer(v) => Ok(v), _ => Err(Error { type_mismatch: true }) }
    }
}
impl vstd::std_specs::convert::TryFromSpecImpl<Value> for bool {
    open spec fn obeys_try_from_spec() -> bool { true }
    open spec fn try_from_spec(x: Value) -> Result<bool, Error> {
        match x { Value::Boolean(v) => Ok(v), _ => Err(Error { type_mismatch: true }) }
    }
}
impl vstd::std_specs::convert::TryFromSpecImpl<Value> for String {
    open spec fn obeys_try_from_spec() -> bool { true }
    open spec fn try_from_spec(x: Value) -> Result<String, Error> {
        match x { Value::String(v) => Ok(v), _ => Err(Error { type_mismatch: true }) }
    }
}
impl vstd::std_specs::convert::TryFromSpecImpl<Value> for Arc<Vec<Value>> {
    open spec fn obeys_try_from_spec() -> bool { true }
    open spec fn try_from_spec(x: Value) -> Result<Arc<Vec<Value>>, Error> {
        match x { Value::Array(v) => Ok(v), _ => Err(Error { type_mismatch: true }) }
    }
}
impl vstd::std_specs::convert::FromSpecImpl<i64> for Value {
    open spec fn obeys_from_spec() -> bool { true }
    open spec fn from_spec(v: i64) -> Value { Value::Integer(v) }
}
impl vstd::std_specs::convert::FromSpecImpl<bool> for Value {
    open spec fn obeys_from_spec() -> bool { true }
    open spec fn from_spec(v: bool) -> Value { Value::Boolean(v) }
}
impl vstd::std_specs::convert::FromSpecImpl<String> for Value {
    open spec fn obeys_from_spec() -> bool { true }
    open spec fn from_spec(v: String) -> Value { Value::String(v) }
}

// ---------------------------------------------------------------------------------------------
// Native-object side of the evaluator (script.rs:71-86, 156-169): trait objects implemented by host objects
// (redproxy's request adaptor, ScopeBinding, test objects).  Declared here with the SAME method names/signatures;
// contracts are again the induction hypothesis (a member's value has the type its `type_of` announced).
pub trait Evaluatable {
    fn type_of(&self, ctx: ScriptContextRef) -> (r: Result<Type, Error>);
    fn value_of(&self, ctx: ScriptContextRef) -> (r: Result<Value, Error>);
}
pub trait Accessible {
    fn type_of(&self, name: &str, ctx: ScriptContextRef) -> (r: Result<Type, Error>);
    fn get(&self, name: &str) -> (r: Result<Value, Error>);
}
pub trait Indexable {
    fn length(&self) -> (r: usize);
    fn type_of_member(&self, ctx: ScriptContextRef) -> (r: Result<Type, Error>);
    fn get(&self, index: i64) -> (r: Result<Value, Error>);
}
/// `dyn Callable` of a native object (functions of the rule language): the two entry points the evaluator uses
pub trait Callable {
    fn signature(&self, ctx: ScriptContextRef, args: &[Value]) -> (r: Result<Type, Error>);
    fn call(&self, ctx: ScriptContextRef, args: &[Value]) -> (r: Result<Value, Error>);
}
impl NativeObjectRef {
    /// does this native object have a Callable side (is it a function)?
    pub uninterp spec fn callable(&self) -> bool;
    #[verifier::external_body]
    pub fn as_callable(&self) -> (r: Option<&dyn Callable>)
        ensures r is Some == self.callable(),
    { unimplemented!() }
    #[verifier::external_body]
    pub fn as_evaluatable(&self) -> (r: Option<&dyn Evaluatable>) { unimplemented!() }
    #[verifier::external_body]
    pub fn as_accessible(&self) -> (r: Option<&dyn Accessible>) { unimplemented!() }
    #[verifier::external_body]
    pub fn as_indexable(&self) -> (r: Option<&dyn Indexable>) { unimplemented!() }
}
/// `Arc<Vec<Value>>::as_ref()` (std AsRef for Arc; its spec needs the unstable Allocator parameter)
#[verifier::external_body]
pub fn vf_arc_vec_as_ref(a: &Arc<Vec<Value>>) -> (r: &Vec<Value>) ensures *r == **a { unimplemented!() }
/// `r.and_then(|x| x.type_of(ctx))` on a `Result<Value, Error>` (script.rs:103,119; Verus has no spec for
/// `Result::and_then` with a closure): std's and_then + the evaluator entry point `Value::type_of` (see above).
pub trait VfAndThenTypeOf {
    fn vf_and_then_type_of(self, ctx: ScriptContextRef) -> (r: Result<Type, Error>);
}
impl VfAndThenTypeOf for Result<Value, Error> {
    #[verifier::external_body]
    fn vf_and_then_type_of(self, ctx: ScriptContextRef) -> (r: Result<Type, Error>)
        ensures self is Err ==> r is Err, self is Ok ==> r == type_spec(self->Ok_0, ctx),
    { unimplemented!() }
}

// ---------------------------------------------------------------------------------------------
// std / regex operations used by the string builtins (unit milu_str).  All are total (no panic) in the real crates.
/// `s.parse::<i64>().map(Into::into)`: std `str::parse` + `Result::map` + the extracted `From<i64> for Value`.
pub struct VfParseIntError {}
#[verifier::external_body]
pub fn vf_parse_i64_value(s: &String) -> (r: Result<Value, VfParseIntError>)
    ensures r is Ok ==> r->Ok_0 is Integer,
{ unimplemented!() }
/// `s.split(&d).map(Into::into).collect::<Vec<Value>>()`: std `str::split` + iterator adapters + `From<&str> for Value`
#[verifier::external_body]
pub fn vf_split_values(s: &String, d: &String) -> (r: Vec<Value>)
    ensures forall|i: int| 0 <= i < r@.len() ==> (#[trigger] r@[i]) is String,
{ unimplemented!() }
/// `ret += &sv` (std `AddAssign<&str> for String`)
#[verifier::external_body]
pub fn vf_string_push_str(s: &mut String, t: &String) { unimplemented!() }
/// `regex::Regex`: `new` fails on an invalid pattern (the "invalid regular expression" dynamic error), `is_match` is total
#[verifier::external_body]
pub struct VfRegex { _p: u8 }
pub struct VfRegexError {}
impl VfRegex {
    #[verifier::external_body]
    pub fn new(p: &String) -> (r: Result<VfRegex, VfRegexError>) { unimplemented!() }
    #[verifier::external_body]
    pub fn is_match(&self, s: &String) -> (r: bool) { unimplemented!() }
}
impl vstd::std_specs::convert::FromSpecImpl<Vec<Value>> for Value {
    open spec fn obeys_from_spec() -> bool { true }
    open spec fn from_spec(v: Vec<Value>) -> Value { Value::Array(Arc::new(v)) }
}

// std combinator without a vstd specification (so that ordinary edits keep compiling and are then decided)
pub assume_specification<T, E>[ Result::<T, E>::unwrap_or ](r: Result<T, E>, default: T) -> (o: T)
    ensures o == (match r { Ok(v) => v, Err(_) => default });

// ---------------------------------------------------------------------------------------------
// std integer helpers vstd 0.2026.09.13 has no specification for (trusted; the obvious mathematical meaning).
// Present so that ordinary edits (saturating_*, checked_*, wrapping_*) keep compiling and are then DECIDED.

pub assume_specification[ i64::saturating_add ](a: i64, b: i64) -> (r: i64) ensures r == (if a + b > i64::MAX { i64::MAX } else if a + b < i64::MIN { i64::MIN } else { (a + b) as i64 });
pub assume_specification[ i64::saturating_sub ](a: i64, b: i64) -> (r: i64) ensures r == (if a - b > i64::MAX { i64::MAX } else if a - b < i64::MIN { i64::MIN } else { (a - b) as i64 });
