// ---------------------------------------------------------------------------------------------
// Dependency contracts for the reply callbacks of src/common/h11c.rs (ConnectCallback, FrameChannelCallback).
// `HttpResponse` (src/common/http.rs) is a CALLEE here: its builder records the status code and the advertised
// Content-Length; `write_with_body` REQUIRES that the advertised length equals the body it is given, `write_to`
// requires that no body was advertised.  (That the writers then send every byte and flush is proved in unit `http`.)
// `Context` exposes the client stream as an optional writer with a ghost log of replies sent on it.

#[verifier::external_body]
pub struct Error { _p: u8 }

#[verifier::external_body]
pub struct ClientStream { _p: u8 }
impl ClientStream {
    /// status codes of the complete replies written to this client so far
    pub uninterp spec fn replies(&self) -> Seq<u16>;
}

pub trait HeaderVal { spec fn as_len(&self) -> Option<nat>; }
impl HeaderVal for usize { open spec fn as_len(&self) -> Option<nat> { Some(*self as nat) } }
impl HeaderVal for &str { open spec fn as_len(&self) -> Option<nat> { None } }
impl HeaderVal for String { open spec fn as_len(&self) -> Option<nat> { None } }

pub uninterp spec fn is_content_length(k: &str) -> bool;
#[verifier::external_body]
pub proof fn axiom_content_length_name()
    ensures is_content_length("Content-Length"), !is_content_length("Content-Type"), !is_content_length("Session-Id"),
            !is_content_length("Udp-Bind-Address"),
{ }

pub struct HttpResponse { pub code: u16, pub advertised: Option<nat> }
impl HttpResponse {
    #[verifier::external_body]
    pub fn new(code: u16, status: &str) -> (r: HttpResponse)
        ensures r.code == code, r.advertised.is_none(),
    { unimplemented!() }
    #[verifier::external_body]
    pub fn with_header<V: HeaderVal>(self, k: &str, v: V) -> (r: HttpResponse)
        ensures r.code == self.code,
                r.advertised == (if is_content_length(k) { v.as_len() } else { self.advertised }),
    { unimplemented!() }
    /// head only: nothing may have been advertised as body
    #[verifier::external_body]
    pub fn write_to(&self, socket: &mut ClientStream) -> (r: Result<(), Error>)
        requires self.advertised.is_none() || self.advertised == Some(0nat),
        ensures r.is_ok() ==> final(socket).replies() == old(socket).replies().push(self.code),
                r.is_err() ==> final(socket).replies() == old(socket).replies(),
    { unimplemented!() }
    /// head + body: the advertised Content-Length must be exactly the body handed over
    #[verifier::external_body]
    pub fn write_with_body(&self, socket: &mut ClientStream, body: &[u8]) -> (r: Result<(), Error>)
        requires self.advertised == Some(body@.len() as nat),
        ensures r.is_ok() ==> final(socket).replies() == old(socket).replies().push(self.code),
                r.is_err() ==> final(socket).replies() == old(socket).replies(),
    { unimplemented!() }
}

#[verifier::external_body]
pub struct FrameIO { _p: u8 }
/// what can be handed to frames_from_stream.  C12: bytes the peer sent in the same segment as the CONNECT head sit in the
/// handshake's read-ahead buffer; the inline frame reader must be built on the stream THAT STILL OWNS that buffer.
pub trait FrameStreamSource { spec fn keeps_readahead(&self) -> bool; }
impl FrameStreamSource for ClientStream { open spec fn keeps_readahead(&self) -> bool { true } }
/// the raw socket after BufReader/BufWriter::into_inner(): the read-ahead bytes are gone
#[verifier::external_body]
pub struct RawHalf { _p: u8 }
#[verifier::external_body]
pub struct RawStream { _p: u8 }
impl FrameStreamSource for RawStream { open spec fn keeps_readahead(&self) -> bool { false } }
impl FrameStreamSource for RawHalf { open spec fn keeps_readahead(&self) -> bool { false } }
impl ClientStream { #[verifier::external_body] pub fn into_inner(self) -> (r: RawHalf) { unimplemented!() } }
impl RawHalf { #[verifier::external_body] pub fn into_inner(self) -> (r: RawStream) { unimplemented!() } }
#[verifier::external_body]
pub fn frames_from_stream<S: FrameStreamSource>(session_id: u32, stream: S) -> (r: FrameIO)
    requires stream.keeps_readahead(),
{ unimplemented!() }

pub struct Context { pub stream: Option<ClientStream>, pub frames_set: bool }
impl Context {
    pub fn borrow_client_stream(&mut self) -> (r: Option<&mut ClientStream>)
        ensures r.is_some() == old(self).stream.is_some(),
                r.is_some() ==> *r.unwrap() == old(self).stream.unwrap() && final(self).stream == Some(*final(r.unwrap())) && final(self).frames_set == old(self).frames_set,
                r.is_none() ==> *final(self) == *old(self),
    { self.stream.as_mut() }
    /// take_client_stream(): panics (unwrap) when the stream is gone
    #[verifier::external_body]
    pub fn take_client_stream(&mut self) -> (r: ClientStream)
        requires old(self).stream.is_some(),
        ensures r == old(self).stream.unwrap(), final(self).stream.is_none(), final(self).frames_set == old(self).frames_set,
    { unimplemented!() }
    /// set_client_stream(): puts a stream (back) into the context
    #[verifier::external_body]
    pub fn set_client_stream(&mut self, s: ClientStream) -> (r: &mut Self)
        ensures final(self).stream == Some(s), final(self).frames_set == old(self).frames_set,
    { unimplemented!() }
    #[verifier::external_body]
    pub fn extra(&self, k: &str) -> (r: Option<&str>) { unimplemented!() }
    #[verifier::external_body]
    pub fn set_client_frames(&mut self, f: FrameIO) -> (r: &mut Self)
        ensures final(self).stream == old(self).stream, final(self).frames_set,
    { unimplemented!() }
}

pub trait VfAsBytes2 { spec fn vb(&self) -> Seq<u8>; fn vf_as_bytes(&self) -> (r: &[u8]) ensures r@ == self.vb(); }
impl VfAsBytes2 for String { open spec fn vb(&self) -> Seq<u8> { string_bytes(*self) } #[verifier::external_body] fn vf_as_bytes(&self) -> (r: &[u8]) { unimplemented!() } }
#[verifier::external_body]
pub fn vf_u32_to_string(x: u32) -> (r: String) { unimplemented!() }
