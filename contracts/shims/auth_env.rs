// ---------------------------------------------------------------------------------------------
// Environment of unit `auth` (src/common/auth.rs `AuthData::check`, src/common/socks.rs `select_method`).
// Everything here is TRUSTED (assumption A2) and listed in the unit's evidence.

/// `auth.rs` struct Cache (Arc<Mutex<HashMap<..>>> + timeout): not under contract; only needed as a field type.
/// Cache expiry is history/time and is outside this unit (DESIGN C07 "not covered").
#[verifier::external_body]
pub struct Cache { _p: u64 }

/// Marker: "AuthData::auth_cmd was called for (name, pass) and answered `verdict`".  auth_cmd runs an external
/// command and consults a cache, so its answer is NOT a function of its arguments; the only way a verified
/// function can establish the marker is to really call auth_cmd with those credentials.
pub uninterp spec fn auth_cmd_answered(name: Seq<char>, pass: Seq<char>, verdict: bool) -> bool;

impl AuthData {
    /// src/common/auth.rs:31 `AuthData::auth_cmd` (tokio::process + cache): returns an ARBITRARY bool.
    #[verifier::external_body]
    pub fn auth_cmd(&self, user: &(String, String)) -> (r: bool)
        ensures auth_cmd_answered(user.0@, user.1@, r),
    { unimplemented!() }
}

/// membership of a credential pair in a user list, by string equality of both components
spec fn user_listed(users: Seq<UserEntry>, name: Seq<char>, pass: Seq<char>) -> bool {
    exists|i: int| 0 <= i < users.len() && (#[trigger] users[i]).username@ == name && users[i].password@ == pass
}

/// stands for the expression
///     self.users.iter().any(|e| e.username == user.0 && e.password == user.1)
/// (closure + iterator adapter: outside Verus).  The unit's rewrite regex matches that exact text, so any edit of
/// the closure makes the unit UNDECIDED instead of silently keeping this contract.  `String == String` is
/// equality of the character sequences (std).
#[verifier::external_body]
fn users_contains(users: &Vec<UserEntry>, name: &String, pass: &String) -> (r: bool)
    ensures r == user_listed(users@, name@, pass@),
{ unimplemented!() }

// ---------------------------------------------------------------------------------------------
// `<[T]>::contains` (core): for T = u8 it is sequence membership.
pub uninterp spec fn slice_contains_spec<T>(s: Seq<T>, x: T) -> bool;

pub assume_specification<T> [ <[T]>::contains ] (s: &[T], x: &T) -> (r: bool)
    where T: std::cmp::PartialEq,
    ensures r == slice_contains_spec(s@, *x);

#[verifier::external_body]
pub broadcast proof fn axiom_slice_contains_u8(s: Seq<u8>, x: u8)
    ensures #[trigger] slice_contains_spec(s, x) == s.contains(x),
{}
