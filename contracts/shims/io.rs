//@@ outside-verus
impl std::fmt::Debug for IoError { fn fmt(&self, _f: &mut std::fmt::Formatter<'_>) -> std::fmt::Result { Ok(()) } }
//@@ inside-verus
// ---------------------------------------------------------------------------------------------
// Dependency contract: std::io::Error / ErrorKind / Result (opaque error values)

pub enum ErrorKind { Other, InvalidData, InvalidInput, Unsupported, UnexpectedEof, ConnectionRefused, ConnectionAborted, NotConnected, TimedOut, BrokenPipe, AddrInUse, WouldBlock }

#[verifier::external_body]
pub struct IoError { _p: Vec<u8> }

pub type IoResult<T> = Result<T, IoError>;

impl IoError {
    #[verifier::external_body]
    pub fn new<M>(kind: ErrorKind, msg: M) -> (r: IoError) { unimplemented!() }
}

// ---------------------------------------------------------------------------------------------
// Dependency contract: tokio AsyncRead / AsyncWrite (+Ext) after await-stripping (T4, assumptions A3, A7).
// A read half is a ghost sequence `inp()` of bytes not yet consumed, in wire order.  How the network
// segments them is the nondeterminism of `read`: it may return ANY 1..=min(buf.len, inp.len) bytes.
// A write half is `written()` (bytes accepted so far, in order) and `flushed_len()`.

pub trait AsyncRead: Sized {
    spec fn inp(&self) -> Seq<u8>;

    /// tokio `AsyncReadExt::read`: Ok(0) iff end of input (or empty buffer); otherwise any non-empty prefix.
    fn read(&mut self, buf: &mut BytesMut) -> (r: IoResult<usize>)
        ensures
            final(buf)@.len() == old(buf)@.len(),
            final(buf).cap() == old(buf).cap(),
            r.is_ok() ==> {
                let n = r.unwrap() as int;
                &&& n <= old(buf)@.len() && n <= old(self).inp().len()
                &&& (n == 0 <==> (old(self).inp().len() == 0 || old(buf)@.len() == 0))
                &&& final(buf)@.subrange(0, n) == old(self).inp().subrange(0, n)
                &&& final(self).inp() == old(self).inp().subrange(n, old(self).inp().len() as int)
            };
}

pub trait AsyncWrite: Sized {
    spec fn written(&self) -> Seq<u8>;
    spec fn flushed_len(&self) -> nat;

    /// `write_all`: on Ok every byte of buf was accepted; on Err some prefix may have been.
    fn write_all(&mut self, buf: &[u8]) -> (r: IoResult<()>)
        ensures
            r.is_ok() ==> final(self).written() == old(self).written() + buf@,
            r.is_err() ==> exists|k: int| 0 <= k <= buf@.len() && final(self).written() == old(self).written() + buf@.subrange(0, k),
            final(self).flushed_len() >= old(self).flushed_len(),
            final(self).flushed_len() <= final(self).written().len();

    /// `write`: accepts a PREFIX of buf (at least one byte unless buf is empty); callers that need all bytes must loop.
    fn write(&mut self, buf: &[u8]) -> (r: IoResult<usize>)
        ensures
            r.is_ok() ==> {
                let k = r.unwrap() as int;
                &&& 0 <= k <= buf@.len() && (k == 0 ==> buf@.len() == 0)
                &&& final(self).written() == old(self).written() + buf@.subrange(0, k)
            },
            r.is_err() ==> final(self).written() == old(self).written(),
            final(self).flushed_len() >= old(self).flushed_len(),
            final(self).flushed_len() <= final(self).written().len();

    fn flush(&mut self) -> (r: IoResult<()>)
        ensures
            final(self).written() == old(self).written(),
            r.is_ok() ==> final(self).flushed_len() == final(self).written().len(),
            final(self).flushed_len() >= old(self).flushed_len(),
            final(self).flushed_len() <= final(self).written().len();

    fn shutdown(&mut self) -> (r: IoResult<()>)
        ensures
            final(self).written() == old(self).written(),
            r.is_ok() ==> final(self).flushed_len() == final(self).written().len(),
            final(self).flushed_len() >= old(self).flushed_len(),
            final(self).flushed_len() <= final(self).written().len();
}
