// Dependency contracts for unit `milu_ext` (src/rules/script_ext.rs), used together with milu.rs.
// Shimmed (trusted):
//  * `crate::context::TargetAddress` (context.rs) and the newtype `SocketAddress(SocketAddr)` (script_ext.rs:118-140):
//    opaque, with their accessors `host()`, `port()`, `r#type()` as total functions of the address (no panic; the
//    bodies are `match` + `to_string()` on std::net types).
//  * `impl From<&str> for Value` (script.rs:424-428, `Self::String(x.into())`): result is a `Value::String`.
#[verifier::external_body]
pub struct TargetAddress { _p: u8 }
impl TargetAddress {
    pub uninterp spec fn host_spec(&self) -> String;
    pub uninterp spec fn port_spec(&self) -> u16;
    #[verifier::external_body]
    pub fn host(&self) -> (r: String) ensures r == self.host_spec() { unimplemented!() }
    #[verifier::external_body]
    pub fn port(&self) -> (r: u16) ensures r == self.port_spec() { unimplemented!() }
    #[verifier::external_body]
    pub fn r#type(&self) -> (r: &str) { unimplemented!() }
}
#[verifier::external_body]
pub struct SocketAddress { _p: u8 }
impl SocketAddress {
    pub uninterp spec fn host_spec(&self) -> String;
    pub uninterp spec fn port_spec(&self) -> u16;
    #[verifier::external_body]
    pub fn host(&self) -> (r: String) ensures r == self.host_spec() { unimplemented!() }
    #[verifier::external_body]
    pub fn port(&self) -> (r: u16) ensures r == self.port_spec() { unimplemented!() }
    #[verifier::external_body]
    pub fn r#type(&self) -> (r: &str) { unimplemented!() }
}
impl vstd::std_specs::convert::FromSpecImpl<u16> for Value {
    open spec fn obeys_from_spec() -> bool { true }
    open spec fn from_spec(v: u16) -> Value { Value::Integer(v as i64) }
}
pub uninterp spec fn str_to_value(x: &str) -> Value;
pub broadcast axiom fn axiom_str_to_value(x: &str)
    ensures #[trigger] str_to_value(x) is String;
impl vstd::std_specs::convert::FromSpecImpl<&str> for Value {
    open spec fn obeys_from_spec() -> bool { true }
    open spec fn from_spec(v: &str) -> Value { str_to_value(v) }
}
impl From<&str> for Value {
    #[verifier::external_body]
    fn from(x: &str) -> (r: Value) { unimplemented!() }
}
