//@@ outside-verus
// Dependency contract: crate `easy_error` 1.x as used by the units loadbalance / config_dispatch (assumption A2).
// bail!(fmt, args..)   = return Err(format_err!(..).into())        -- never panics, arguments not evaluated (T9, A8)
// ensure!(cond, fmt..) = if !(cond) { bail!(fmt..) }
macro_rules! bail { ($($t:tt)*) => { return Err(vf_easy_error()) } }
macro_rules! ensure { ($c:expr, $($t:tt)*) => { if !($c) { return Err(vf_easy_error()); } } }
//@@ inside-verus

// ---------------------------------------------------------------------------------------------
// easy_error::Error: an opaque error value (message + optional cause).

#[verifier::external_body]
pub struct Error { _p: u64 }

impl std::fmt::Debug for Error {
    #[verifier::external_body]
    fn fmt(&self, f: &mut std::fmt::Formatter<'_>) -> std::fmt::Result { unimplemented!() }
}

/// the error value built by bail!/ensure!
#[verifier::external_body]
pub fn vf_easy_error() -> (r: Error) { unimplemented!() }

/// easy_error::err_msg
#[verifier::external_body]
pub fn err_msg(s: &str) -> (r: Error) { unimplemented!() }

/// easy_error::ResultExt::context: wraps the error, keeps the success value
pub trait ResultExt<T> {
    spec fn rx_ok(&self) -> Option<T>;
    fn context(self, msg: &str) -> (r: Result<T, Error>)
        ensures
            r.is_ok() == self.rx_ok().is_some(),
            r.is_ok() ==> r.unwrap() == self.rx_ok().unwrap();
}
impl<T, E> ResultExt<T> for Result<T, E> {
    open spec fn rx_ok(&self) -> Option<T> {
        match *self { Ok(v) => Some(v), Err(_) => None }
    }
    #[verifier::external_body]
    fn context(self, msg: &str) -> (r: Result<T, Error>) { unimplemented!() }
}
