// ---------------------------------------------------------------------------------------------
// Dependency contracts for src/rules/mod.rs `Rule::evaluate`:
//  * `filter::Filter` (milu evaluation, outside this unit): `evaluate(request)` returns the value of the
//    uninterpreted function filter_eval(filter, request) -- a fixed Ok(bool) / Err per (filter, request);
//  * statistics (AtomicU64 with &self receivers, prometheus counters / histogram timer, Instant): no effect on the
//    result; they are opaque cells whose operations cannot panic.
//  * `Option<Arc<dyn Connector>>` is replaced by the opaque `ArcConnectorShim` (Verus has no `dyn`).

#[verifier::external_body]
pub struct Context { _p: u8 }

#[verifier::external_body]
pub struct Filter { _p: u8 }

pub enum FilterOutcome { True, False, Fails }
pub uninterp spec fn filter_eval(f: &Filter, request: &Context) -> FilterOutcome;

impl Filter {
    #[verifier::external_body]
    pub fn evaluate(&self, request: &Context) -> (r: Result<bool, Error>)
        ensures
            filter_eval(self, request) is True ==> r == Ok::<bool, Error>(true),
            filter_eval(self, request) is False ==> r == Ok::<bool, Error>(false),
            filter_eval(self, request) is Fails ==> r.is_err(),
    { unimplemented!() }
}

#[verifier::external_body]
pub struct ArcConnectorShim { _p: u8 }

#[verifier::external_body]
pub struct AtomicU64 { _p: u8 }
pub enum Ordering { Relaxed, SeqCst, Acquire, Release }
impl AtomicU64 {
    #[verifier::external_body]
    pub fn fetch_add(&self, v: u64, o: Ordering) -> (r: u64) { unimplemented!() }
}

#[verifier::external_body]
pub struct Instant { _p: u8 }
#[verifier::external_body]
pub struct ElapsedDuration { _p: u8 }
impl Instant {
    #[verifier::external_body]
    pub fn now() -> (r: Instant) { unimplemented!() }
    #[verifier::external_body]
    pub fn elapsed(&self) -> (r: ElapsedDuration) { unimplemented!() }
}
impl ElapsedDuration {
    #[verifier::external_body]
    pub fn as_nanos(&self) -> (r: u128) { unimplemented!() }
}

pub struct IntCounterShim;
pub struct HistogramShim;
pub struct HistogramTimerShim;
impl IntCounterShim { #[verifier::external_body] pub fn inc(&self) { unimplemented!() } }
impl HistogramShim { #[verifier::external_body] pub fn start_timer(&self) -> (r: HistogramTimerShim) { unimplemented!() } }
impl HistogramTimerShim { #[verifier::external_body] pub fn stop_and_record(self) -> (r: f64) { unimplemented!() } }
pub const RULES_EXECUTE_COUNT: IntCounterShim = IntCounterShim;
pub const RULES_HIT_COUNT: IntCounterShim = IntCounterShim;
pub const RULES_EXECUTE_TIME: HistogramShim = HistogramShim;
