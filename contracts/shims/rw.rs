//@@ outside-verus
macro_rules! bail { ($($t:tt)*) => { return Err(vf_err_msg()) } }
macro_rules! ensure { ($c:expr, $($t:tt)*) => { if !($c) { return Err(vf_err_msg()) } } }
impl std::fmt::Debug for Error { fn fmt(&self, _f: &mut std::fmt::Formatter<'_>) -> std::fmt::Result { Ok(()) } }
//@@ inside-verus
// ---------------------------------------------------------------------------------------------
// Dependency contract: easy_error::{Error, ResultExt, bail!, err_msg}

#[verifier::external_body]
pub struct Error { _p: Vec<u8> }

#[verifier::external_body]
pub fn vf_err_msg() -> (r: Error) { unimplemented!() }

#[verifier::external_body]
pub fn err_msg<M>(m: M) -> (r: Error) { unimplemented!() }

pub trait ResultExt<T>: Sized {
    spec fn rx_ok(&self) -> bool;
    spec fn rx_val(&self) -> T;
    /// `.context(..)`: Ok stays Ok with the same value, Err stays Err
    fn context(self, msg: &str) -> (r: Result<T, Error>)
        ensures r.is_ok() == self.rx_ok(), r.is_ok() ==> r.unwrap() == self.rx_val();
}
impl<T> ResultExt<T> for Result<T, IoError> {
    open spec fn rx_ok(&self) -> bool { self.is_ok() }
    open spec fn rx_val(&self) -> T { self.unwrap() }
    #[verifier::external_body]
    fn context(self, msg: &str) -> (r: Result<T, Error>) { unimplemented!() }
}

// ---------------------------------------------------------------------------------------------
// Dependency contract: the `RW` bound of common/socks.rs = tokio AsyncBufRead + AsyncWriteExt (+Unpin..)
// after await-stripping (T4, A3, A7).  Ghost state: `inp()` bytes not yet consumed (wire order; segmentation does
// not appear: read_u8/u16/u32/read_exact/read_until are documented to be independent of it), `written()` bytes
// accepted so far, `flushed_len()`.  Any call may fail with an I/O error; an Err result promises nothing about inp.

pub trait ByteBuf {
    spec fn bb(&self) -> Seq<u8>;
}
impl ByteBuf for Vec<u8> { open spec fn bb(&self) -> Seq<u8> { self@ } }
impl ByteBuf for [u8] { open spec fn bb(&self) -> Seq<u8> { self@ } }
impl<const N: usize> ByteBuf for [u8; N] { open spec fn bb(&self) -> Seq<u8> { self@ } }

pub open spec fn first_index_of(s: Seq<u8>, b: u8, k: int) -> bool {
    0 <= k < s.len() && s[k] == b && forall|j: int| 0 <= j < k ==> s[j] != b
}

pub trait RW: Sized {
    spec fn inp(&self) -> Seq<u8>;
    /// number of input bytes consumed since the stream was created (ghost bookkeeping, makes "only moved forward" quantifier free)
    spec fn pos(&self) -> nat;
    spec fn written(&self) -> Seq<u8>;
    spec fn flushed_len(&self) -> nat;

    fn read_u8(&mut self) -> (r: IoResult<u8>)
        ensures
            final(self).written() == old(self).written(), final(self).flushed_len() == old(self).flushed_len(),
            r.is_ok() ==> old(self).inp().len() >= 1 && r.unwrap() == old(self).inp()[0]
                && final(self).inp() == old(self).inp().skip(1) && final(self).pos() == old(self).pos() + 1;
    fn read_u16(&mut self) -> (r: IoResult<u16>)
        ensures
            final(self).written() == old(self).written(), final(self).flushed_len() == old(self).flushed_len(),
            r.is_ok() ==> old(self).inp().len() >= 2 && r.unwrap() == be16(old(self).inp())
                && final(self).inp() == old(self).inp().skip(2) && final(self).pos() == old(self).pos() + 2;
    fn read_u32(&mut self) -> (r: IoResult<u32>)
        ensures
            final(self).written() == old(self).written(), final(self).flushed_len() == old(self).flushed_len(),
            r.is_ok() ==> old(self).inp().len() >= 4 && r.unwrap() == be32(old(self).inp())
                && final(self).inp() == old(self).inp().skip(4) && final(self).pos() == old(self).pos() + 4;
    /// `read`: returns ANY non-empty prefix of what is available (0 only at end of input / empty buffer) -- code that
    /// needs the whole buffer must use read_exact
    fn read<B: ByteBuf + ?Sized>(&mut self, buf: &mut B) -> (r: IoResult<usize>)
        ensures
            final(self).written() == old(self).written(), final(self).flushed_len() == old(self).flushed_len(),
            final(buf).bb().len() == old(buf).bb().len(),
            r.is_ok() ==> {
                let n = r.unwrap() as int;
                &&& 0 <= n <= old(buf).bb().len() && n <= old(self).inp().len()
                &&& final(buf).bb().take(n) == old(self).inp().take(n)
                &&& final(self).inp() == old(self).inp().skip(n)
                &&& final(self).pos() == old(self).pos() + n
            };
    /// fills the whole buffer or fails (UnexpectedEof when fewer bytes remain)
    fn read_exact<B: ByteBuf + ?Sized>(&mut self, buf: &mut B) -> (r: IoResult<usize>)
        ensures
            final(self).written() == old(self).written(), final(self).flushed_len() == old(self).flushed_len(),
            final(buf).bb().len() == old(buf).bb().len(),
            r.is_ok() ==> old(self).inp().len() >= old(buf).bb().len()
                && final(buf).bb() == old(self).inp().take(old(buf).bb().len() as int)
                && final(self).inp() == old(self).inp().skip(old(buf).bb().len() as int) && final(self).pos() == old(self).pos() + old(buf).bb().len();
    /// appends to buf all bytes up to and including the first `byte`, or everything if the input ends first
    fn read_until(&mut self, byte: u8, buf: &mut Vec<u8>) -> (r: IoResult<usize>)
        ensures
            final(self).written() == old(self).written(), final(self).flushed_len() == old(self).flushed_len(),
            r.is_ok() ==> {
                let n = r.unwrap() as int;
                &&& 0 <= n <= old(self).inp().len()
                &&& final(buf)@ == old(buf)@ + old(self).inp().take(n)
                &&& final(self).inp() == old(self).inp().skip(n)
                &&& final(self).pos() == old(self).pos() + n
                &&& (first_index_of(old(self).inp(), byte, n - 1)
                     || (n == old(self).inp().len() && forall|j: int| 0 <= j < n ==> old(self).inp()[j] != byte))
            };

    fn write_all<B: ByteBuf + ?Sized>(&mut self, buf: &B) -> (r: IoResult<()>)
        ensures
            final(self).inp() == old(self).inp(), final(self).pos() == old(self).pos(),
            r.is_ok() ==> final(self).written() == old(self).written() + buf.bb(),
            final(self).flushed_len() >= old(self).flushed_len(), final(self).flushed_len() <= final(self).written().len();
    /// `write`: may accept only a prefix
    fn write<B: ByteBuf + ?Sized>(&mut self, buf: &B) -> (r: IoResult<usize>)
        ensures
            final(self).inp() == old(self).inp(), final(self).pos() == old(self).pos(),
            r.is_ok() ==> 0 <= r.unwrap() <= buf.bb().len() && (r.unwrap() == 0 ==> buf.bb().len() == 0)
                && final(self).written() == old(self).written() + buf.bb().take(r.unwrap() as int),
            final(self).flushed_len() >= old(self).flushed_len(), final(self).flushed_len() <= final(self).written().len();
    fn write_u8(&mut self, x: u8) -> (r: IoResult<()>)
        ensures
            final(self).inp() == old(self).inp(), final(self).pos() == old(self).pos(),
            r.is_ok() ==> final(self).written() == old(self).written().push(x),
            final(self).flushed_len() >= old(self).flushed_len(), final(self).flushed_len() <= final(self).written().len();
    fn write_u16(&mut self, x: u16) -> (r: IoResult<()>)
        ensures
            final(self).inp() == old(self).inp(), final(self).pos() == old(self).pos(),
            r.is_ok() ==> final(self).written() == old(self).written() + be16_bytes(x),
            final(self).flushed_len() >= old(self).flushed_len(), final(self).flushed_len() <= final(self).written().len();
    fn flush(&mut self) -> (r: IoResult<()>)
        ensures
            final(self).inp() == old(self).inp(), final(self).pos() == old(self).pos(), final(self).written() == old(self).written(),
            r.is_ok() ==> final(self).flushed_len() == final(self).written().len(),
            final(self).flushed_len() >= old(self).flushed_len(), final(self).flushed_len() <= final(self).written().len();
}

// ---------------------------------------------------------------------------------------------
// small std helpers renamed by unit rewrites

pub trait VfAsBytes {
    spec fn vf_bytes(&self) -> Seq<u8>;
    fn vf_as_bytes(&self) -> (r: &[u8])
        ensures r@ == self.vf_bytes(), is_utf8(r@), r@.len() <= 0x7fff_ffff_ffff_ffff;
    fn vf_str_len(&self) -> (r: usize)
        ensures r == self.vf_bytes().len();
}
impl VfAsBytes for String {
    open spec fn vf_bytes(&self) -> Seq<u8> { string_bytes(*self) }
    #[verifier::external_body]
    fn vf_as_bytes(&self) -> (r: &[u8]) { unimplemented!() }
    #[verifier::external_body]
    fn vf_str_len(&self) -> (r: usize) { unimplemented!() }
}

/// `String::from_utf8(v).context(..)`: strict
#[verifier::external_body]
pub fn string_from_utf8_ctx(v: Vec<u8>) -> (r: Result<String, Error>)
    ensures r.is_ok() <==> is_utf8(v@), r.is_ok() ==> string_bytes(r.unwrap()) == v@,
{ unimplemented!() }

#[verifier::external_body]
pub fn slice_contains_u8(s: &[u8], x: u8) -> (r: bool)
    ensures r == s@.contains(x),
{ unimplemented!() }

#[verifier::external_body]
pub fn vec_from_slice(s: &[u8]) -> (r: Vec<u8>)
    ensures r@ == s@,
{ unimplemented!() }

#[verifier::external_body]
pub fn vec_from_array<const N: usize>(a: [u8; N]) -> (r: Vec<u8>)
    ensures r@ == a@,
{ unimplemented!() }
