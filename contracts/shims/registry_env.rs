// ---------------------------------------------------------------------------------------------
// Environment shared by the units `loadbalance` and `config_dispatch`: trait objects and the name-keyed
// registries.  Verus cannot take `dyn Trait`, so the unit json rewrites the TYPE NAMES
//     Arc<dyn Connector>                   -> ArcConnector       Box<dyn Connector> is already `ConnectorRef`
//     HashMap<String, Arc<dyn Connector>>  -> ConnectorMap
//     Box<dyn Listener> / Arc<dyn Listener> / HashMap<String, Arc<dyn Listener>> -> ListenerBox / ArcListener / ListenerMap
// and the operations used on them are given the contracts of Box/Arc/HashMap (assumption A2):
//   * `name()` of a trait object is a fixed string (`name_spec`) -- every impl in the repo returns a field;
//   * `Box<dyn T> -> Arc<dyn T>` (`.into()`) and `Arc::clone` keep the object, hence its name;
//   * HashMap<String, V>: view = Map<Seq<char>, V>; `insert` returns the previous value under that key and maps the
//     key to the new one; `get`/`contains_key` answer by key equality (String: Eq + Hash by content).

#[verifier::external_body]
pub struct ConnectorRef { _p: u64 }
#[verifier::external_body]
pub struct ArcConnector { _p: u64 }

impl ConnectorRef {
    pub uninterp spec fn name_spec(&self) -> Seq<char>;
    #[verifier::external_body]
    pub fn name(&self) -> (r: &str) ensures r@ == self.name_spec() { unimplemented!() }
    /// `Arc<dyn Connector>: From<Box<dyn Connector>>`
    #[verifier::external_body]
    pub fn into(self) -> (r: ArcConnector) ensures r.name_spec() == self.name_spec() { unimplemented!() }
}

impl ArcConnector {
    pub uninterp spec fn name_spec(&self) -> Seq<char>;
    #[verifier::external_body]
    pub fn name(&self) -> (r: &str) ensures r@ == self.name_spec() { unimplemented!() }
}

impl Clone for ArcConnector {
    /// Arc::clone: the same object
    #[verifier::external_body]
    fn clone(&self) -> (r: ArcConnector) ensures r == *self { unimplemented!() }
}

#[verifier::external_body]
pub struct ConnectorMap { _p: u64 }

impl View for ConnectorMap { type V = Map<Seq<char>, ArcConnector>; uninterp spec fn view(&self) -> Map<Seq<char>, ArcConnector>; }

impl Default for ConnectorMap {
    #[verifier::external_body]
    fn default() -> (r: ConnectorMap) ensures r@ == Map::<Seq<char>, ArcConnector>::empty() { unimplemented!() }
}

impl ConnectorMap {
    /// every entry is stored under its own name
    pub open spec fn keyed_by_name(&self) -> bool {
        forall|k: Seq<char>| #[trigger] self@.dom().contains(k) ==> self@[k].name_spec() == k
    }
    #[verifier::external_body]
    pub fn insert(&mut self, k: String, v: ArcConnector) -> (r: Option<ArcConnector>)
        ensures
            final(self)@ == old(self)@.insert(k@, v),
            r.is_some() == old(self)@.dom().contains(k@),
            r.is_some() ==> r.unwrap() == old(self)@[k@],
    { unimplemented!() }
    #[verifier::external_body]
    pub fn is_empty(&self) -> (r: bool) ensures r == (self@.dom().len() == 0 && self@.dom().finite()) || (!r && !(self@.dom() =~= Set::<Seq<char>>::empty())) { unimplemented!() }
    #[verifier::external_body]
    pub fn contains_key(&self, k: &String) -> (r: bool) ensures r == self@.dom().contains(k@) { unimplemented!() }
    #[verifier::external_body]
    pub fn get(&self, k: &String) -> (r: Option<&ArcConnector>)
        ensures
            r.is_some() == self@.dom().contains(k@),
            r.is_some() ==> *r.unwrap() == self@[k@],
    { unimplemented!() }
}

// ---- listeners: same shape

#[verifier::external_body]
pub struct ListenerBox { _p: u64 }
#[verifier::external_body]
pub struct ArcListener { _p: u64 }

impl ListenerBox {
    pub uninterp spec fn name_spec(&self) -> Seq<char>;
    #[verifier::external_body]
    pub fn name(&self) -> (r: &str) ensures r@ == self.name_spec() { unimplemented!() }
    #[verifier::external_body]
    pub fn into(self) -> (r: ArcListener) ensures r.name_spec() == self.name_spec() { unimplemented!() }
}

impl ArcListener {
    pub uninterp spec fn name_spec(&self) -> Seq<char>;
    #[verifier::external_body]
    pub fn name(&self) -> (r: &str) ensures r@ == self.name_spec() { unimplemented!() }
}

#[verifier::external_body]
pub struct ListenerMap { _p: u64 }

impl View for ListenerMap { type V = Map<Seq<char>, ArcListener>; uninterp spec fn view(&self) -> Map<Seq<char>, ArcListener>; }

impl Default for ListenerMap {
    #[verifier::external_body]
    fn default() -> (r: ListenerMap) ensures r@ == Map::<Seq<char>, ArcListener>::empty() { unimplemented!() }
}

impl ListenerMap {
    pub open spec fn keyed_by_name(&self) -> bool {
        forall|k: Seq<char>| #[trigger] self@.dom().contains(k) ==> self@[k].name_spec() == k
    }
    #[verifier::external_body]
    pub fn insert(&mut self, k: String, v: ArcListener) -> (r: Option<ArcListener>)
        ensures
            final(self)@ == old(self)@.insert(k@, v),
            r.is_some() == old(self)@.dom().contains(k@),
            r.is_some() ==> r.unwrap() == old(self)@[k@],
    { unimplemented!() }
}
