// ---------------------------------------------------------------------------------------------
// Dependency contract: serde_yaml::Value as seen by the configuration dispatchers (assumption A2, DESIGN C18).
// A Value is ANY YAML document: null, bool, number, string, sequence, mapping, tagged.  Nothing is promised about
// its shape, so every accessor may answer either way for every argument:
//   get(key)   -> None (not a mapping / key absent) or Some(child) -- the child is again ANY Value
//   as_str()   -> None (not a string, e.g. `type: 5`) or Some(text)
//   == "text"  -> true or false
// None of them panics (serde_yaml documentation).  Because the contracts are empty, a verified caller is panic-free
// for every configuration document.

#[verifier::external_body]
pub struct Value { _p: u64 }

impl Value {
    #[verifier::external_body]
    pub fn get(&self, key: &str) -> (r: Option<&Value>) { unimplemented!() }
    #[verifier::external_body]
    pub fn as_str(&self) -> (r: Option<&str>) { unimplemented!() }
}

impl PartialEq<str> for Value {
    #[verifier::external_body]
    fn eq(&self, other: &str) -> (r: bool) { unimplemented!() }
}
