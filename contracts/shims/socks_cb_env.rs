// ---------------------------------------------------------------------------------------------
// Dependency contracts for the reply callback of src/listeners/socks.rs (`Callback`): SocksResponse::write_to is a
// CALLEE (its encoding, 0 -> 90 mapping and flush are proved in unit `socks`); here it logs (version, cmd) of every
// reply handed to the client stream.

#[verifier::external_body]
pub struct Error { _p: u8 }
#[verifier::external_body]
pub struct SocketAddr { _p: u8 }
#[verifier::external_body]
pub struct TargetAddress { _p: u8 }
impl Clone for SocketAddr { #[verifier::external_body] fn clone(&self) -> (r: SocketAddr) { unimplemented!() } }
impl Copy for SocketAddr {}

pub const SOCKS_REPLY_OK: u8 = 0u8;
pub const SOCKS_REPLY_GENERAL_FAILURE: u8 = 1u8;

#[verifier::external_body]
pub struct ClientStream { _p: u8 }
impl ClientStream {
    /// (version, reply code) of every reply written to the client so far
    pub uninterp spec fn replies(&self) -> Seq<(u8, u8)>;
}

pub struct SocksResponse { pub version: u8, pub cmd: u8, pub target: TargetAddress }
impl SocksResponse {
    #[verifier::external_body]
    pub fn write_to(&self, socket: &mut ClientStream) -> (r: Result<(), Error>)
        ensures r.is_ok() ==> final(socket).replies() == old(socket).replies().push((self.version, self.cmd)),
                r.is_err() ==> final(socket).replies() == old(socket).replies(),
    { unimplemented!() }
}

pub struct Context { pub stream: Option<ClientStream> }
impl Context {
    pub fn borrow_client_stream(&mut self) -> (r: Option<&mut ClientStream>)
        ensures r.is_some() == old(self).stream.is_some(),
                r.is_some() ==> *r.unwrap() == old(self).stream.unwrap() && final(self).stream == Some(*final(r.unwrap())),
                r.is_none() ==> *final(self) == *old(self),
    { self.stream.as_mut() }
    #[verifier::external_body]
    pub fn target(&self) -> (r: TargetAddress) { unimplemented!() }
}

/// `self.listen_addr.map_or_else(|| ctx.target(), |x| x.into())`
#[verifier::external_body]
pub fn vf_listen_or_target(listen: Option<SocketAddr>, ctx: &Context) -> (r: TargetAddress) { unimplemented!() }
/// `"0.0.0.0:0".parse().unwrap()` (a constant that always parses)
#[verifier::external_body]
pub fn vf_unspecified_target() -> (r: TargetAddress) { unimplemented!() }
