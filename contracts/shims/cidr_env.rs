//@@ outside-verus
impl std::fmt::Debug for AddrParseError { fn fmt(&self, _f: &mut std::fmt::Formatter<'_>) -> std::fmt::Result { Ok(()) } }
impl std::fmt::Debug for CidrParseError { fn fmt(&self, _f: &mut std::fmt::Formatter<'_>) -> std::fmt::Result { Ok(()) } }
//@@ inside-verus
// ---------------------------------------------------------------------------------------------
// Dependency contracts for the body of `function!(CidrMatch ..)` in src/rules/script_ext.rs:
//  * milu Value conversions (`try_into::<String>`, `bool.into()`): proved for the real impls in unit milu_int;
//  * `str::parse::<IpAddr>` / `str::parse::<AnyIpCidr>` (std / cidr crate): opaque parsers whose result is a function of
//    the text: ip_of / cidr_of;
//  * `AnyIpCidr::contains`: STANDARD CIDR CONTAINMENT, written out below (trusted for the cidr crate 0.2; not discharged).

#[verifier::external_body] pub struct Error { _p: u8 }
pub enum IpV { V4(u32), V6(u128) }
pub enum CidrV { Any, V4 { net: u32, len: nat }, V6 { net: u128, len: nat } }

/// standard containment: same family and the top `len` bits agree (len 0 matches the whole family); `Any` matches all
pub open spec fn cidr_contains(c: CidrV, ip: IpV) -> bool {
    match (c, ip) {
        (CidrV::Any, _) => true,
        (CidrV::V4 { net, len }, IpV::V4(a)) => len <= 32 && (len == 0 || (a ^ net) >> ((32 - len) as u32) == 0),
        (CidrV::V6 { net, len }, IpV::V6(a)) => len <= 128 && (len == 0 || (a ^ net) >> ((128 - len) as u128) == 0),
        _ => false,
    }
}

pub uninterp spec fn ip_of(text: Seq<u8>) -> Option<IpV>;
pub uninterp spec fn cidr_of(text: Seq<u8>) -> Option<CidrV>;

#[derive(Clone, Copy)] pub struct Ipv4Addr { pub bits: u32 }
#[derive(Clone, Copy)] pub struct Ipv6Addr { pub bits: u128 }
#[derive(Clone, Copy)] pub enum IpAddr { V4(Ipv4Addr), V6(Ipv6Addr) }
impl Ipv6Addr {
    /// std `to_ipv4`: Some for ::a.b.c.d (IPv4-compatible) and ::ffff:a.b.c.d (IPv4-mapped)
    #[verifier::external_body]
    pub fn to_ipv4(&self) -> (r: Option<Ipv4Addr>)
        ensures r.is_some() == ((self.bits >> 32) == 0 || (self.bits >> 32) == 0xffff),
                r.is_some() ==> r->Some_0.bits == (self.bits & 0xffff_ffff) as u32,
    { unimplemented!() }
    #[verifier::external_body]
    pub fn to_ipv4_mapped(&self) -> (r: Option<Ipv4Addr>)
        ensures r.is_some() == ((self.bits >> 32) == 0xffff),
                r.is_some() ==> r->Some_0.bits == (self.bits & 0xffff_ffff) as u32,
    { unimplemented!() }
}
#[verifier::external_body] pub struct AnyIpCidr { _p: u8 }
impl IpAddr {
    pub open spec fn v(&self) -> IpV { match *self { IpAddr::V4(a) => IpV::V4(a.bits), IpAddr::V6(a) => IpV::V6(a.bits) } }
    pub fn is_ipv4(&self) -> (r: bool) ensures r == (*self is V4) { match self { IpAddr::V4(_) => true, _ => false } }
    pub fn is_ipv6(&self) -> (r: bool) ensures r == (*self is V6) { match self { IpAddr::V6(_) => true, _ => false } }
}
impl AnyIpCidr {
    pub uninterp spec fn v(&self) -> CidrV;
    #[verifier::external_body]
    pub fn contains(&self, ip: &IpAddr) -> (r: bool) ensures r == cidr_contains(self.v(), ip.v()) { unimplemented!() }
}
#[verifier::external_body] pub struct AddrParseError { _p: u8 }
#[verifier::external_body] pub struct CidrParseError { _p: u8 }
#[verifier::external_body]
pub fn vf_parse_ip(s: &String) -> (r: Result<IpAddr, AddrParseError>)
    ensures r.is_ok() == ip_of(string_bytes(*s)).is_some(), r.is_ok() ==> r->Ok_0.v() == ip_of(string_bytes(*s))->Some_0,
{ unimplemented!() }
#[verifier::external_body]
pub fn vf_parse_cidr(s: &String) -> (r: Result<AnyIpCidr, CidrParseError>)
    ensures r.is_ok() == cidr_of(string_bytes(*s)).is_some(), r.is_ok() ==> r->Ok_0.v() == cidr_of(string_bytes(*s))->Some_0,
{ unimplemented!() }

pub enum Value { String(String), Boolean(bool), Integer(i64), Other }
impl Value {
    /// `TryFrom<Value> for String` (proved for the real impl in unit milu_int)
    pub fn try_into(self) -> (r: Result<String, Error>)
        ensures (self is String) ==> r.is_ok() && r->Ok_0 == self->String_0, !(self is String) ==> r.is_err(),
    { match self { Value::String(s) => Ok(s), _ => Err(vf_err()) } }
}
#[verifier::external_body] pub fn vf_err() -> (r: Error) { unimplemented!() }
pub trait BoolInto { fn into(self) -> (r: Value); }
impl vstd::std_specs::convert::FromSpecImpl<bool> for Value {
    open spec fn obeys_from_spec() -> bool { true }
    open spec fn from_spec(b: bool) -> Value { Value::Boolean(b) }
}
impl From<bool> for Value { fn from(b: bool) -> (r: Value) { Value::Boolean(b) } }
