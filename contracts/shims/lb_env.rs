// ---------------------------------------------------------------------------------------------
// Environment of unit `loadbalance` (src/connectors/loadbalance.rs).  TRUSTED (assumption A2).

/// the real std Arc: Verus treats it as transparent (T2: the unit's `use` lines are replaced by this prelude)
use std::sync::Arc;

/// `crate::GlobalState` (src/main.rs) reduced to the one field the load balancer reads.
pub struct GlobalState {
    pub connectors: ConnectorMap,
}

// ---- the request context as far as `hash_by` touches it:
//      create_context(ctx.read().await.props().clone())         (await stripped, T4)

/// `Arc<ContextProps>`: the immutable request properties (source, target, listener ...) the key script reads
#[verifier::external_body]
pub struct PropsArc { _p: u64 }
impl Clone for PropsArc {
    #[verifier::external_body]
    fn clone(&self) -> (r: PropsArc) ensures r == *self { unimplemented!() }
}

/// `ContextRef = Arc<RwLock<Context>>`
#[verifier::external_body]
pub struct ContextRef { _p: u64 }
#[verifier::external_body]
pub struct ContextReadGuard { _p: u64 }

impl ContextRef {
    /// the properties of the request this context belongs to
    pub uninterp spec fn props_spec(&self) -> PropsArc;
    /// tokio RwLock::read (await stripped): never fails
    #[verifier::external_body]
    pub fn read(&self) -> (r: ContextReadGuard) ensures r.props_spec() == self.props_spec() { unimplemented!() }
}
impl ContextReadGuard {
    pub uninterp spec fn props_spec(&self) -> PropsArc;
    /// Context::props (src/context.rs): returns the field
    #[verifier::external_body]
    pub fn props(&self) -> (r: &PropsArc) ensures *r == self.props_spec() { unimplemented!() }
}

/// milu `ScriptContext` built by `rules::script_ext::create_context(props)`: its only input is `props`
#[verifier::external_body]
pub struct ScriptContext { _p: u64 }
impl ScriptContext {
    pub uninterp spec fn props_spec(&self) -> PropsArc;
    /// `Arc<ScriptContext>: From<ScriptContext>` (`.into()`)
    #[verifier::external_body]
    pub fn into(self) -> (r: Arc<ScriptContext>) ensures (*r).props_spec() == self.props_spec() { unimplemented!() }
}
#[verifier::external_body]
pub fn create_context(props: PropsArc) -> (r: ScriptContext) ensures r.props_spec() == props { unimplemented!() }

impl Default for PropsArc {
    /// `Arc<ContextProps>::default()` -- the empty request used to type-check the key script in `init`
    #[verifier::external_body]
    fn default() -> (r: PropsArc) { unimplemented!() }
}

// ---- milu::script::Value: the compiled key expression and the value it evaluates to.

/// the variants a key expression can evaluate to are visible (an edited body may inspect them); everything else
/// of milu's Value (identifiers, op-calls, native objects, arrays ..) is one opaque variant
pub enum Value { Integer(i64), Boolean(bool), String(String), Other(ValueOpaque) }
#[verifier::external_body]
pub struct ValueOpaque { _p: u64 }

/// Marker: "evaluating expression `expr` against the request properties `props` yielded a value whose identity
/// under Hash/Eq is `key`".  Only `real_value_of` establishes it, so a postcondition
/// `exists key: script_evaluated(expr, props, key) && ...` pins `key` to a value the function really computed
/// for THIS request with THIS expression.  (Nothing is assumed about evaluation being deterministic.)
pub uninterp spec fn script_evaluated(expr: Value, props: PropsArc, key: int) -> bool;

impl Value {
    /// identity of a value under its derived `Hash`/`PartialEq`: equal values have equal keys, and
    /// `#[derive(Hash)]` feeds a hasher a byte sequence that is a function of the value (trusted, DESIGN C17).
    pub uninterp spec fn hash_key(&self) -> int;

    /// milu evaluation: Ok(value) or Err (a script error); never panics is NOT assumed here beyond the call returning
    #[verifier::external_body]
    pub fn real_value_of(&self, ctx: Arc<ScriptContext>) -> (r: Result<Value, Error>)
        ensures r.is_ok() ==> script_evaluated(*self, (*ctx).props_spec(), r.unwrap().hash_key()),
    { unimplemented!() }

    /// milu `value_of`: one evaluation step only -- the result may still be an unevaluated / native object, so it
    /// does NOT establish `script_evaluated` (a key hashed from it is not the value of the expression)
    #[verifier::external_body]
    pub fn value_of(&self, ctx: Arc<ScriptContext>) -> (r: Result<Value, Error>)
    { unimplemented!() }

    /// `<Value as Hash>::hash`
    #[verifier::external_body]
    pub fn hash(&self, state: &mut DefaultHasher)
        ensures final(state).state() == hasher_step(old(state).state(), self.hash_key()),
    { unimplemented!() }
}

// ---- milu parser / type checker as used by `init`: arbitrary results, never panic is part of the contract
//      (milu's own check-time functions are under contract in the milu units; here they are environment).

/// milu::script::Type -- only compared with `Type::String`; the comparison may answer either way
pub enum Type { String, Integer, Boolean, Other }
impl PartialEq for Type {
    #[verifier::external_body]
    fn eq(&self, other: &Type) -> (r: bool) { unimplemented!() }
}

/// nom parse error of milu::parser::parse
#[verifier::external_body]
pub struct ParseError { _p: u64 }

/// milu::parser::parse
#[verifier::external_body]
pub fn parse(src: &str) -> (r: Result<Value, ParseError>) { unimplemented!() }

impl Value {
    /// milu static type of an expression: Ok(type) or Err
    #[verifier::external_body]
    pub fn real_type_of(&self, ctx: Arc<ScriptContext>) -> (r: Result<Type, Error>) { unimplemented!() }
}

// ---- added for LoadBalanceConnector::connect (C17 "the member actually used is the one recorded")
impl ContextRef {
    /// the upstream name recorded for this connection (Context::set_connector)
    pub uninterp spec fn recorded(&self) -> Seq<char>;
    /// `ctx.write().await.set_connector(name)`
    #[verifier::external_body]
    pub fn vf_write_set_connector(&mut self, name: String)
        ensures final(self).recorded() == name@, final(self).props_spec() == old(self).props_spec(),
    { unimplemented!() }
}
impl ArcConnector {
    #[verifier::external_body]
    pub fn vf_name_owned(&self) -> (r: String) ensures r@ == self.name_spec() { unimplemented!() }
    /// `<dyn Connector>::connect` of a member.  Its precondition IS the property: at the moment a member is asked to
    /// connect, the connection must already record exactly this member as its upstream.
    #[verifier::external_body]
    pub fn connect(&self, state: Arc<GlobalState>, ctx: ContextRef) -> (r: Result<(), Error>)
        requires ctx.recorded() == self.name_spec(),
    { unimplemented!() }
}

impl Clone for ContextRef {
    /// Arc::clone of the connection handle: same connection (ghost state is per handle: what one handle records later is
    /// not visible through a clone taken earlier -- sound for "recorded BEFORE delegating" obligations)
    #[verifier::external_body]
    fn clone(&self) -> (r: ContextRef) ensures r.recorded() == self.recorded(), r.props_spec() == self.props_spec() { unimplemented!() }
}
