//@@ outside-verus
// Dependency contract: logging / formatting macros.  Arguments are NOT evaluated (T9, assumption A8).
macro_rules! format { ($($t:tt)*) => { vf_format() } }
macro_rules! trace { ($($t:tt)*) => { () } }
macro_rules! debug { ($($t:tt)*) => { () } }
macro_rules! info { ($($t:tt)*) => { () } }
macro_rules! warn { ($($t:tt)*) => { () } }
macro_rules! error { ($($t:tt)*) => { () } }
//@@ inside-verus

// the shipped targets are 64-bit
global size_of usize == 8;

// ---------------------------------------------------------------------------------------------
// String as an opaque byte sequence (assumption A4)

#[verifier::external_body]
pub fn vf_format() -> (r: String)
{ unimplemented!() }

/// the UTF-8 bytes of a String (uninterpreted: Verus' own String view is over chars)
pub uninterp spec fn string_bytes(s: String) -> Seq<u8>;
pub uninterp spec fn str_bytes(s: &str) -> Seq<u8>;

/// valid UTF-8 predicate over byte sequences (uninterpreted)
pub uninterp spec fn is_utf8(b: Seq<u8>) -> bool;

// ---------------------------------------------------------------------------------------------
// std combinators vstd has no specification for (so that ordinary edits keep compiling and are then DECIDED)
pub assume_specification<T, E>[ Result::<T, E>::unwrap_or ](r: Result<T, E>, default: T) -> (o: T)
    ensures o == (match r { Ok(v) => v, Err(_) => default });

// ---------------------------------------------------------------------------------------------
// std integer helpers vstd 0.2026.09.13 has no specification for (trusted; the obvious mathematical meaning).
// Present so that ordinary edits (saturating_*, checked_*, wrapping_*) keep compiling and are then DECIDED.

pub assume_specification[ i64::saturating_add ](a: i64, b: i64) -> (r: i64) ensures r == (if a + b > i64::MAX { i64::MAX } else if a + b < i64::MIN { i64::MIN } else { (a + b) as i64 });
pub assume_specification[ i64::saturating_sub ](a: i64, b: i64) -> (r: i64) ensures r == (if a - b > i64::MAX { i64::MAX } else if a - b < i64::MIN { i64::MIN } else { (a - b) as i64 });

pub assume_specification[ String::len ](s: &String) -> (r: usize)
    ensures r == string_bytes(*s).len();

/// `str::chars().count()`: number of Unicode scalar values -- NOT the byte length (no relation to string_bytes is given,
/// so a length check written with it proves nothing about the encoded size)
pub assume_specification<'a>[ <core::str::Chars<'a> as Iterator>::count ](it: core::str::Chars<'a>) -> (n: usize);
