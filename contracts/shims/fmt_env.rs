//@@ outside-verus
// `write!(f, "<literal>", args..)` on a Formatter: the arguments ARE evaluated here (unlike format! in prelude.rs):
// each must implement the shim trait FmtArg, whose text() is what std's Display prints for it.
macro_rules! write {
    ($f:expr, $fmt:literal) => { vf_write0($f, $fmt) };
    ($f:expr, $fmt:literal, $a:expr) => { vf_write1($f, $fmt, &$a) };
    ($f:expr, $fmt:literal, $a:expr, $b:expr) => { vf_write2($f, $fmt, &$a, &$b) };
}
//@@ inside-verus
// ---------------------------------------------------------------------------------------------
// Dependency contract: core::fmt (Formatter, Display of String / u16 / SocketAddr) for `impl Display for TargetAddress`.

#[verifier::external_body] pub struct Formatter { _p: u8 }
impl Formatter { pub uninterp spec fn out(&self) -> Seq<u8>; }
#[verifier::external_body] pub struct FmtError { _p: u8 }
pub type FmtResult = Result<(), FmtError>;

/// the text std prints for a value with `{}`
pub trait FmtArg { spec fn text(&self) -> Seq<u8>; }
pub uninterp spec fn dec_u16(x: u16) -> Seq<u8>;
/// std's Display for SocketAddr: "a.b.c.d:port" / "[v6]:port"
pub uninterp spec fn sockaddr_text(a: SocketAddr) -> Seq<u8>;
pub uninterp spec fn ipaddr_text(a: IpAddr) -> Seq<u8>;
impl FmtArg for String { open spec fn text(&self) -> Seq<u8> { string_bytes(*self) } }
impl FmtArg for &String { open spec fn text(&self) -> Seq<u8> { string_bytes(**self) } }
impl FmtArg for u16 { open spec fn text(&self) -> Seq<u8> { dec_u16(*self) } }
impl FmtArg for &u16 { open spec fn text(&self) -> Seq<u8> { dec_u16(**self) } }
impl FmtArg for SocketAddr { open spec fn text(&self) -> Seq<u8> { sockaddr_text(*self) } }
impl FmtArg for &SocketAddr { open spec fn text(&self) -> Seq<u8> { sockaddr_text(**self) } }

/// what a format string with 0 / 1 / 2 `{}` holes produces (uninterpreted in the literal; fixed by the axioms below)
pub uninterp spec fn fmt0(f: &str) -> Seq<u8>;
pub uninterp spec fn fmt1(f: &str, a: Seq<u8>) -> Seq<u8>;
pub uninterp spec fn fmt2(f: &str, a: Seq<u8>, b: Seq<u8>) -> Seq<u8>;
#[verifier::external_body]
pub proof fn axiom_fmt_literals(a: Seq<u8>, b: Seq<u8>)
    ensures fmt2("{}:{}", a, b) == a + seq![58u8] + b, fmt1("{}", a) == a,
{ }

#[verifier::external_body]
pub fn vf_write0(f: &mut Formatter, s: &str) -> (r: FmtResult)
    ensures r.is_ok() ==> final(f).out() == old(f).out() + fmt0(s),
{ unimplemented!() }
#[verifier::external_body]
pub fn vf_write1<A: FmtArg>(f: &mut Formatter, s: &str, a: &A) -> (r: FmtResult)
    ensures r.is_ok() ==> final(f).out() == old(f).out() + fmt1(s, a.text()),
{ unimplemented!() }
#[verifier::external_body]
pub fn vf_write2<A: FmtArg, B: FmtArg>(f: &mut Formatter, s: &str, a: &A, b: &B) -> (r: FmtResult)
    ensures r.is_ok() ==> final(f).out() == old(f).out() + fmt2(s, a.text(), b.text()),
{ unimplemented!() }

/// `IpAddr::to_string()` as used by TargetAddress::host()
pub trait VfToString { fn to_string(&self) -> (r: String); }
impl IpAddr {
    #[verifier::external_body]
    pub fn to_string(&self) -> (r: String) ensures string_bytes(r) == ipaddr_text(*self) { unimplemented!() }
}
