// ---------------------------------------------------------------------------------------------
// Dependency contracts for unit `idle_wiring`:
//  * ContextStatistics::is_timeout (proved in unit `timeouts`): true iff this direction has carried no data for the period
//  * the start-up structures of main(): only the fields the extracted statements touch

#[verifier::external_body] pub struct Duration { _p: u8 }
#[verifier::external_body] pub struct ContextStatistics { _p: u8 }
impl ContextStatistics {
    /// has this direction been silent for longer than the period (0 = never)
    pub uninterp spec fn idle_for(&self, period: Duration) -> bool;
    #[verifier::external_body]
    pub fn is_timeout(&self, period: Duration) -> (r: bool) ensures r == self.idle_for(period) { unimplemented!() }
}
impl Clone for Duration { #[verifier::external_body] fn clone(&self) -> (r: Duration) ensures r == *self { unimplemented!() } }
impl Copy for Duration {}

pub struct CtxGlobalShim { pub default_timeout: u64 }
pub struct CfgShim { pub timeouts: Timeouts }
pub struct StateShim { pub timeouts: Timeouts }
