//@@ outside-verus
macro_rules! ensure { ($c:expr, $($t:tt)*) => { if !($c) { return Err(vf_err_other()) } } }
impl std::fmt::Debug for Error { fn fmt(&self, _f: &mut std::fmt::Formatter<'_>) -> std::fmt::Result { Ok(()) } }
//@@ inside-verus
// ---------------------------------------------------------------------------------------------
// Dependency contracts for src/access_log.rs.
//  * easy_error::Error with a ghost ORIGIN, so that "a formatter error never ends the writer task" is expressible;
//  * milu Value / Type: `type_of` reports static_type(), `real_type_of` reports real_static_type() (two different
//    uninterpreted functions: the checker variants are not interchangeable); `value_of` yields a value whose dynamic
//    type is static_type() (the C08 induction hypothesis, proved per builtin in the milu units);
//  * tokio fs / mpsc / spawn as opaque operations.

pub enum ErrOrigin { Format, Io, Queue, Other }
#[verifier::external_body]
pub struct Error { _p: u8 }
impl Error { pub uninterp spec fn origin(&self) -> ErrOrigin; }
#[verifier::external_body]
pub fn vf_err_other() -> (r: Error) ensures r.origin() is Other { unimplemented!() }
#[verifier::external_body]
pub fn err_msg<M>(m: M) -> (r: Error) ensures r.origin() is Other { unimplemented!() }

pub trait ResultExt<T>: Sized {
    spec fn rx(&self) -> Result<T, ErrOrigin>;
    fn context(self, msg: &str) -> (r: Result<T, Error>)
        ensures r.is_ok() == self.rx().is_ok(), r.is_ok() ==> r->Ok_0 == self.rx()->Ok_0,
                r.is_err() ==> r->Err_0.origin() == self.rx()->Err_0;
}
impl<T> ResultExt<T> for Result<T, Error> {
    open spec fn rx(&self) -> Result<T, ErrOrigin> { match *self { Ok(v) => Ok(v), Err(e) => Err(e.origin()) } }
    #[verifier::external_body] fn context(self, msg: &str) -> (r: Result<T, Error>) { unimplemented!() }
}
#[verifier::external_body] pub struct SyntaxError { _p: u8 }
impl<T> ResultExt<T> for Result<T, SyntaxError> {
    open spec fn rx(&self) -> Result<T, ErrOrigin> { match *self { Ok(v) => Ok(v), Err(e) => Err(ErrOrigin::Other) } }
    #[verifier::external_body] fn context(self, msg: &str) -> (r: Result<T, Error>) { unimplemented!() }
}
#[verifier::external_body] pub struct IoErr { _p: u8 }
impl<T> ResultExt<T> for Result<T, IoErr> {
    open spec fn rx(&self) -> Result<T, ErrOrigin> { match *self { Ok(v) => Ok(v), Err(e) => Err(ErrOrigin::Io) } }
    #[verifier::external_body] fn context(self, msg: &str) -> (r: Result<T, Error>) { unimplemented!() }
}

pub enum Type { String, Integer, Boolean, Other }
impl Type {
    #[verifier::external_body]
    pub fn eq(&self, o: &Type) -> (r: bool) ensures r == (*self == *o) { unimplemented!() }
}
impl PartialEq for Type {
    #[verifier::external_body]
    fn eq(&self, o: &Type) -> (r: bool) ensures r == (*self == *o) { unimplemented!() }
}
#[verifier::external_body] pub struct ScriptContext { _p: u8 }
#[verifier::external_body] pub struct ArcScriptContext { _p: u8 }
impl Clone for ArcScriptContext { #[verifier::external_body] fn clone(&self) -> (r: ArcScriptContext) { unimplemented!() } }
impl ScriptContext { #[verifier::external_body] pub fn into(self) -> (r: ArcScriptContext) { unimplemented!() } }
#[verifier::external_body] pub struct ArcContextProps { _p: u8 }
#[verifier::external_body] pub fn create_context(p: ArcContextProps) -> (r: ScriptContext) { unimplemented!() }
#[verifier::external_body] pub fn vf_default_props() -> (r: ArcContextProps) { unimplemented!() }

#[verifier::external_body] pub struct Value { _p: u8 }
impl Value {
    /// type the checker's `type_of` reports for this expression
    pub uninterp spec fn static_type(&self) -> Type;
    /// type the checker's `real_type_of` reports (evaluates native objects through): NOT the same function
    pub uninterp spec fn real_static_type(&self) -> Type;
    /// dynamic type of a value
    pub uninterp spec fn dyn_type(&self) -> Type;
    #[verifier::external_body]
    pub fn type_of(&self, ctx: ArcScriptContext) -> (r: Result<Type, Error>)
        ensures r.is_ok() ==> r->Ok_0 == self.static_type(), r.is_err() ==> r->Err_0.origin() is Other,
    { unimplemented!() }
    #[verifier::external_body]
    pub fn real_type_of(&self, ctx: ArcScriptContext) -> (r: Result<Type, Error>)
        ensures r.is_ok() ==> r->Ok_0 == self.real_static_type(), r.is_err() ==> r->Err_0.origin() is Other,
    { unimplemented!() }
    /// evaluation: Ok(v) with v of the static type, or a dynamic error (origin Format when used by the formatter)
    #[verifier::external_body]
    pub fn value_of(&self, ctx: ArcScriptContext) -> (r: Result<Value, Error>)
        ensures r.is_ok() ==> r->Ok_0.dyn_type() == self.static_type(), r.is_err() ==> r->Err_0.origin() is Format,
    { unimplemented!() }
    #[verifier::external_body]
    pub fn real_value_of(&self, ctx: ArcScriptContext) -> (r: Result<Value, Error>)
        ensures r.is_ok() ==> r->Ok_0.dyn_type() == self.real_static_type(), r.is_err() ==> r->Err_0.origin() is Format,
    { unimplemented!() }
    /// `TryInto<String>`: succeeds exactly on string values; a failure is a TYPE error
    #[verifier::external_body]
    pub fn try_into(self) -> (r: Result<String, Error>)
        ensures r.is_ok() == (self.dyn_type() is String), r.is_err() ==> r->Err_0.origin() is Other,
    { unimplemented!() }
}
#[verifier::external_body] pub fn parse(s: &str) -> (r: Result<Value, SyntaxError>) { unimplemented!() }

// ---- AccessLog::init / log_thread environment
#[verifier::external_body] pub struct PathBuf { _p: u8 }
impl PathBuf {
    /// can the log file be opened for appending (creating it if needed)
    pub uninterp spec fn openable(&self) -> bool;
    #[verifier::external_body] pub fn to_owned(&self) -> (r: PathBuf) ensures r == *self { unimplemented!() }
}
#[verifier::external_body] pub struct File { _p: u8 }
/// callee contract of log_open (OpenOptions chain): Ok iff the path can be opened
#[verifier::external_body]
pub fn log_open(path: &PathBuf) -> (r: Result<File, Error>)
    ensures r.is_ok() == path.openable(), r.is_err() ==> r->Err_0.origin() is Io,
{ unimplemented!() }
#[verifier::external_body] pub fn drop<T>(t: T) { unimplemented!() }
#[verifier::external_body] pub struct BoxFormater { _p: u8 }
impl BoxFormater {
    #[verifier::external_body]
    pub fn to_string(&self, e: ArcContextProps) -> (r: Result<String, Error>)
        ensures r.is_err() ==> r->Err_0.origin() is Format,
    { unimplemented!() }
}
#[verifier::external_body] pub struct Format { _p: u8 }
impl Format {
    #[verifier::external_body]
    pub fn create(&self) -> (r: Result<BoxFormater, Error>) ensures r.is_err() ==> r->Err_0.origin() is Other { unimplemented!() }
}
#[verifier::external_body] pub struct LogTx { _p: u8 }
#[verifier::external_body] pub struct LogRx { _p: u8 }
impl Clone for LogTx { #[verifier::external_body] fn clone(&self) -> (r: LogTx) { unimplemented!() } }
#[verifier::external_body] pub fn channel(cap: usize) -> (r: (LogTx, LogRx)) { unimplemented!() }
/// `tokio::spawn(log_thread(format, rx, path).unwrap_or_else(|e| panic!(..)))`: the task aborts the process when
/// log_thread returns Err -- which is why log_thread's contract forbids formatter errors to escape
#[verifier::external_body] pub fn vf_spawn_log_thread(format: BoxFormater, rx: LogRx, path: PathBuf) { unimplemented!() }
#[verifier::external_body] pub fn vf_spawn_signal_watch(tx: LogTx) { unimplemented!() }
/// `rx.recv().await.ok_or_else(|| err_msg("dequeue"))`
#[verifier::external_body]
pub fn vf_recv_or_err(rx: &mut LogRx) -> (r: Result<Option<ArcContextProps>, Error>) ensures r.is_err() ==> r->Err_0.origin() is Queue { unimplemented!() }
#[verifier::external_body] pub fn vf_push_crlf(s: &mut String) { unimplemented!() }
#[verifier::external_body] pub struct LogStream { _p: u8 }
impl LogStream {
    #[verifier::external_body] pub fn new(f: File) -> (r: LogStream) { unimplemented!() }
    #[verifier::external_body] pub fn write(&mut self, b: &[u8]) -> (r: Result<usize, IoErr>) { unimplemented!() }
    #[verifier::external_body] pub fn flush(&mut self) -> (r: Result<(), IoErr>) { unimplemented!() }
    #[verifier::external_body] pub fn shutdown(&mut self) -> (r: Result<(), IoErr>) { unimplemented!() }
}
pub trait VfAsBytes3 { fn vf_as_bytes(&self) -> (r: &[u8]); }
impl VfAsBytes3 for String { #[verifier::external_body] fn vf_as_bytes(&self) -> (r: &[u8]) { unimplemented!() } }
