// ---------------------------------------------------------------------------------------------
// Dependency contract: String <-> bytes (assumption A4).  `string_bytes` is the UTF-8 image.

#[verifier::external_body]
pub fn string_as_bytes(s: &String) -> (r: &[u8])
    ensures r@ == string_bytes(*s), is_utf8(r@), r@.len() <= 0x7fff_ffff_ffff_ffff,
{ unimplemented!() }

/// `String::from_utf8(b.to_vec()).map_err(|e| IoError::new(kind, e))`: strict, Err iff not UTF-8
#[verifier::external_body]
pub fn string_from_utf8_ioerr(b: Bytes, kind: ErrorKind) -> (r: IoResult<String>)
    ensures r.is_ok() <==> is_utf8(b@),
            r.is_ok() ==> string_bytes(r.unwrap()) == b@,
{ unimplemented!() }

/// every String holds valid UTF-8
#[verifier::external_body]
pub proof fn axiom_string_utf8(s: String)
    ensures is_utf8(string_bytes(s)),
{ }

/// `String::from_utf8_lossy(&b).into_owned()` / `.to_string()`: identity on valid UTF-8, ARBITRARY replacement otherwise
#[verifier::external_body]
pub fn string_from_utf8_lossy(b: Bytes) -> (r: String)
    ensures is_utf8(b@) ==> string_bytes(r) == b@,
{ unimplemented!() }
