// Kani stub-environment unit for `h11c_connect` (src/common/h11c.rs): the HTTP CONNECT connector handshake.
// C06: the connector reports success (and installs the upstream stream / frames) iff the upstream answered 200;
// C03: the CONNECT line and Host header carry exactly the destination of this connection; C05: no reply header
// (Session-Id) can panic.  Function text extracted from /repo every run, compiled verbatim (generic closure
// parameters included); loop-free; every stub outcome symbolic.
#![allow(dead_code, unused_variables, unused_macros, static_mut_refs, unused_imports, unused_mut)]

macro_rules! bail { ($($t:tt)*) => { return Err(Error { cause: 9 }) } }
macro_rules! trace { ($($t:tt)*) => { () } }
macro_rules! warn { ($($t:tt)*) => { () } }
macro_rules! format { ($($t:tt)*) => { Msg(0) } }
pub mod tracing {
    macro_rules! trace { ($($t:tt)*) => { () } }
    macro_rules! debug { ($($t:tt)*) => { () } }
    macro_rules! info { ($($t:tt)*) => { () } }
    macro_rules! warn_ { ($($t:tt)*) => { () } }
    macro_rules! error { ($($t:tt)*) => { () } }
    pub(crate) use {trace, debug, info, warn_ as warn, error};
}
use std::future::Future;

#[derive(Clone, Copy)] pub struct Msg(pub u8);
#[derive(Clone, Copy, Debug)] pub struct Error { pub cause: u8 }
pub trait ResultExt<T> { fn context(self, m: &str) -> Result<T, Error>; fn with_context<F: FnOnce() -> Msg>(self, f: F) -> Result<T, Error>; }
impl<T, E> ResultExt<T> for Result<T, E> {
    fn context(self, m: &str) -> Result<T, Error> { match self { Ok(v) => Ok(v), Err(_) => Err(Error { cause: 1 }) } }
    fn with_context<F: FnOnce() -> Msg>(self, f: F) -> Result<T, Error> { match self { Ok(v) => Ok(v), Err(_) => Err(Error { cause: 1 }) } }
}

// ---------------------------------------------------------------- ghost trace
static mut T: u32 = 0;
fn tick() -> u32 { unsafe { T += 1; T } }
static mut TARGET: u8 = 0;
static mut FEATURE: Feature = Feature::TcpForward;
static mut REQ_METHOD_CONNECT: bool = false;
static mut REQ_RESOURCE: u8 = 255;
static mut REQ_HOST: u8 = 255;
static mut REQ_UDP: bool = false;
static mut T_REQ_WRITTEN: u32 = 0;
static mut WRITE_OK: bool = true;
static mut T_RESP_READ: u32 = 0;
static mut RESP_OK: bool = true;
static mut RESP_CODE: u16 = 0;
static mut SID_PARSES: bool = true;
static mut SID_VALUE: u32 = 0;
static mut N_SET_STREAM: u32 = 0;
static mut N_SET_FRAMES: u32 = 0;
static mut FRAMES_SID: u32 = 0;
static mut BIND_SRC_PRESENT: bool = true;

#[derive(Clone, Copy, PartialEq, Eq, Debug)] pub enum Feature { TcpForward, UdpForward, UdpBind, TcpBind }
#[derive(Clone, Copy, PartialEq, Eq, Debug)] pub struct TargetAddress(pub u8);
#[derive(Clone, Copy, PartialEq, Eq, Debug)] pub struct SocketAddr(pub u8);
/// a buffered stream: `.0 == 0` is the upstream being set up, `.0 == 9` the client's stream held by the context.
/// Raw byte access exists so that an edit which moves bytes itself is decided (every raw write is logged) instead of
/// being rejected by the compiler.
pub struct IOBufStream(pub u8);
static mut N_RAW_WRITES: u32 = 0;        // bytes put on a stream by the connector outside HttpRequest::write_to
static mut CLIENT_READAHEAD: [u8; 2] = [0; 2];
static mut CLIENT_READAHEAD_LEN: usize = 0;
static mut CLIENT_STREAM: IOBufStream = IOBufStream(9);
impl IOBufStream {
    /// BufReader::buffer(): what was read ahead from the peer and not consumed yet (the client may pipeline data behind its handshake)
    pub fn buffer(&self) -> &[u8] { unsafe { if self.0 == 9 { &CLIENT_READAHEAD[..CLIENT_READAHEAD_LEN] } else { &CLIENT_READAHEAD[..0] } } }
    pub fn write_all(&mut self, b: &[u8]) -> std::future::Ready<Result<(), IoError>> { unsafe { if b.len() > 0 { N_RAW_WRITES += 1; } } std::future::ready(Ok(())) }
    pub fn write(&mut self, b: &[u8]) -> std::future::Ready<Result<usize, IoError>> { unsafe { if b.len() > 0 { N_RAW_WRITES += 1; } } std::future::ready(Ok(b.len())) }
    pub fn flush(&mut self) -> std::future::Ready<Result<(), IoError>> { std::future::ready(Ok(())) }
}
#[derive(Clone, Copy, Debug)] pub struct IoError(pub u8);
pub struct FrameIO(pub u32);
pub fn frames_from_stream(sid: u32, _s: IOBufStream) -> FrameIO { FrameIO(sid) }

/// header values / names as small tokens
pub trait HeaderArg { fn tok(&self) -> u8; }
impl HeaderArg for &TargetAddress { fn tok(&self) -> u8 { self.0 } }
impl HeaderArg for &str { fn tok(&self) -> u8 { if self.len() == 3 { 200 } else { 201 } } }   // "udp" vs a channel name
impl HeaderArg for OwnedStr { fn tok(&self) -> u8 { 202 } }
#[derive(Clone, Copy)] pub struct OwnedStr(pub u8);

pub struct HttpRequest { method_connect: bool, resource: u8, host: u8, udp: bool }
impl HttpRequest {
    pub fn new<R: HeaderArg>(method: &str, resource: R) -> Self {
        HttpRequest { method_connect: method.len() == 7 && method.as_bytes()[0] == b'C', resource: resource.tok(), host: 255, udp: false }
    }
    pub fn with_header<V: HeaderArg>(mut self, k: &str, v: V) -> Self {
        if k.len() == 4 { self.host = v.tok(); }                 // "Host"
        if k.len() == 14 && v.tok() == 200 { self.udp = true; }  // "Proxy-Protocol: udp"
        self
    }
    pub async fn write_to(&self, _s: &mut IOBufStream) -> Result<(), Error> {
        unsafe {
            if !WRITE_OK { return Err(Error { cause: 2 }); }
            REQ_METHOD_CONNECT = self.method_connect; REQ_RESOURCE = self.resource; REQ_HOST = self.host; REQ_UDP = self.udp;
            T_REQ_WRITTEN = tick();
            Ok(())
        }
    }
}
#[derive(Debug)]
pub struct HttpResponse { pub code: u16 }
pub struct HeaderStr(pub u8);
pub struct ParseErr;
impl HeaderStr { pub fn parse(&self) -> Result<u32, ParseErr> { unsafe { if SID_PARSES { Ok(SID_VALUE) } else { Err(ParseErr) } } } }
impl HttpResponse {
    pub async fn read_from(_s: &mut IOBufStream) -> Result<HttpResponse, Error> {
        unsafe { T_RESP_READ = tick(); if RESP_OK { Ok(HttpResponse { code: RESP_CODE }) } else { Err(Error { cause: 3 }) } }
    }
    pub fn header(&self, _name: &str, _def: &str) -> HeaderStr { HeaderStr(0) }
}

pub struct Context(pub u8);
impl Context {
    pub fn target(&self) -> TargetAddress { unsafe { TargetAddress(TARGET) } }
    pub fn feature(&self) -> Feature { unsafe { FEATURE } }
    pub fn extra(&self, _k: &str) -> Option<ExtraStr> { unsafe { if BIND_SRC_PRESENT { Some(ExtraStr(1)) } else { None } } }
    pub fn borrow_client_stream(&mut self) -> Option<&mut IOBufStream> { unsafe { Some(&mut CLIENT_STREAM) } }
    pub fn set_server_stream(&mut self, _s: IOBufStream) -> &mut Self { unsafe { N_SET_STREAM += 1; } self }
    pub fn set_server_frames(&mut self, f: FrameIO) -> &mut Self { unsafe { N_SET_FRAMES += 1; FRAMES_SID = f.0; } self }
    pub fn set_local_addr(&mut self, _a: SocketAddr) -> &mut Self { self }
    pub fn set_server_addr(&mut self, _a: SocketAddr) -> &mut Self { self }
}
pub struct ExtraStr(pub u8);
impl ExtraStr { pub fn to_owned(&self) -> OwnedStr { OwnedStr(self.0) } }
static mut CTX: Context = Context(0);
pub struct Guard(pub u8);
impl std::ops::Deref for Guard { type Target = Context; fn deref(&self) -> &Context { unsafe { &CTX } } }
impl std::ops::DerefMut for Guard { fn deref_mut(&mut self) -> &mut Context { unsafe { &mut CTX } } }
#[derive(Clone, Copy)] pub struct ContextRef(pub u8);
impl ContextRef { pub async fn read(&self) -> Guard { Guard(0) } pub async fn write(&self) -> Guard { Guard(0) } }

include!("h11c_connect.in.rs");

async fn mk_frames(sid: u32) -> FrameIO { FrameIO(sid) }

#[cfg(kani)]
#[kani::proof]
#[kani::unwind(8)]
fn h11c_connect_all_paths() {
    unsafe {
        TARGET = kani::any();
        kani::assume(TARGET < 100);
        let f: u8 = kani::any();
        FEATURE = match f % 4 { 0 => Feature::TcpForward, 1 => Feature::UdpForward, 2 => Feature::UdpBind, _ => Feature::TcpBind };
        WRITE_OK = kani::any(); RESP_OK = kani::any(); RESP_CODE = kani::any(); SID_PARSES = kani::any(); SID_VALUE = kani::any();
        CLIENT_READAHEAD = kani::any(); CLIENT_READAHEAD_LEN = kani::any(); kani::assume(CLIENT_READAHEAD_LEN <= 2);
        BIND_SRC_PRESENT = true; // precondition of the UdpBind path: listeners set "udp-bind-source" before enqueueing (unwrap in the callee)
    }
    let inline: bool = kani::any();
    let channel: &str = if inline { "inline" } else { "quic" };
    let ret = run_ready(h11c_connect(IOBufStream(0), ContextRef(0), SocketAddr(1), SocketAddr(2), channel, |sid| mk_frames(sid)));
    unsafe {
        let udp = FEATURE == Feature::UdpForward || FEATURE == Feature::UdpBind;
        let tcp = FEATURE == Feature::TcpForward;
        // C06: success is reported, and the upstream stream / frame channel installed, iff the upstream said 200
        if ret.is_ok() {
            assert!(tcp || udp);
            assert!(WRITE_OK && RESP_OK && RESP_CODE == 200);
            assert!(T_REQ_WRITTEN != 0 && T_REQ_WRITTEN < T_RESP_READ);
            assert!((tcp && N_SET_STREAM == 1 && N_SET_FRAMES == 0) || (udp && N_SET_FRAMES == 1 && N_SET_STREAM == 0));
            if udp { assert!(SID_PARSES && FRAMES_SID == SID_VALUE && REQ_UDP); }
            // C03: the next hop is asked for exactly this connection's destination
            assert!(REQ_METHOD_CONNECT && REQ_RESOURCE == TARGET && REQ_HOST == TARGET);
        } else {
            assert!(N_SET_STREAM == 0 && N_SET_FRAMES == 0);
        }
        if RESP_OK && WRITE_OK && (tcp || udp) && RESP_CODE != 200 { assert!(ret.is_err()); }
        // C01: the connector puts nothing but its CONNECT request on the upstream stream -- whatever the client pipelined
        // behind its own handshake stays in the client stream's read-ahead (copy_bidi's drain forwards it exactly once)
        assert!(N_RAW_WRITES == 0, "the connector moved raw bytes itself");
        kani::cover!(ret.is_ok() && tcp && CLIENT_READAHEAD_LEN == 2);
        kani::cover!(ret.is_ok() && tcp);
        kani::cover!(ret.is_ok() && udp && inline);
        kani::cover!(ret.is_ok() && udp && !inline);
        kani::cover!(ret.is_err() && udp && RESP_CODE == 200 && !SID_PARSES);
    }
}

/// every stub future is immediately ready, so the task completes within one poll (cheaper than kani::block_on's loop)
pub fn run_ready<F: std::future::Future>(f: F) -> F::Output {
    let mut f = std::pin::pin!(f);
    let mut cx = std::task::Context::from_waker(std::task::Waker::noop());
    match f.as_mut().poll(&mut cx) { std::task::Poll::Ready(v) => v, std::task::Poll::Pending => panic!("stub future pending") }
}
fn main() {}
