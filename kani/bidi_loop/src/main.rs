// Kani stub-environment unit for the supervising loop of `copy_bidi` (src/copy.rs): the statements after the three
// tokio::pin! lines (`let mut c2s = None; .. while c2s.is_none() || s2c.is_none() { tokio::select! { .. } }`) are
// extracted as a block (T14) from /repo on every run and compiled verbatim.  Properties:
//   C13  a due 1 s tick is never left unobserved while the loop runs, a tick that finds both directions idle closes the
//        tunnel at once, and the tunnel is never closed for idleness otherwise;
//   C04  each direction's end is recorded exactly once, the other direction keeps being served, a finished direction
//        is never polled again, both finished => Ok, an error of either direction ends the tunnel with that error.
// `tokio::select!` is a poll-based stand-in with tokio's semantics: futures of enabled branches are created, polled
// (in order: the invocation is `biased;`) and dropped before the handler of the first ready one runs; when none is
// ready the task yields.  The two copy directions, the interval and the context are stubs whose readiness and results
// are chosen symbolically per scheduling round by the executor in the harness.
#![allow(dead_code, unused_variables, unused_macros, static_mut_refs, unused_imports, unused_mut, unused_parens)]
// `tracing::level!(..)` written with its path by an edit keeps compiling (log statements have no effect on the checks)
pub mod tracing {
    macro_rules! trace { ($($t:tt)*) => { () } }
    macro_rules! debug { ($($t:tt)*) => { () } }
    macro_rules! info { ($($t:tt)*) => { () } }
    macro_rules! warn_ { ($($t:tt)*) => { () } }
    macro_rules! error { ($($t:tt)*) => { () } }
    pub(crate) use {trace, debug, info, warn_ as warn, error};
}
use std::future::Future;
use std::pin::Pin;
use std::task::{Context as TaskCx, Poll};

#[derive(Clone, Copy, Debug, PartialEq, Eq)] pub struct Error(pub u8);
/// the only locally made error of the block is the idle timeout
pub fn err_msg(m: &str) -> Error { Error(if m.len() == 12 { 1 } else { 2 }) }

#[cfg(kani)] pub fn nondet_bool() -> bool { kani::any() }
#[cfg(not(kani))] pub fn nondet_bool() -> bool { false }

// ------------------------------------------------------------------ ghost world (set per round by the executor)
static mut READY: [bool; 2] = [false; 2];      // direction 0 = c2s, 1 = s2c completes when polled in this round
static mut RESULT_OK: [bool; 2] = [true; 2];   // ... with Ok(()) or with Err
static mut DONE: [bool; 2] = [false; 2];
static mut FAILED: [bool; 2] = [false; 2];       // the direction completed with an error
static mut POLLED_AFTER_DONE: bool = false;
static mut POLLED_THIS_ROUND: [bool; 2] = [false; 2];
static mut TICK_DUE: bool = false;             // the 1 s interval has elapsed and has not been observed yet
static mut IDLE: [bool; 2] = [false; 2];       // ContextStatistics::is_timeout of server / client statistics
static mut TICK_FOUND_IDLE: bool = false;      // a tick was observed while both directions were idle
static mut TICK_FOUND_BUSY: bool = false;
static mut STATES: [u8; 4] = [0; 4];           // set_state log: 1 = ClientShutdown, 2 = ServerShutdown
static mut N_STATES: usize = 0;

pub struct CopyFut(pub usize);
impl Future for CopyFut {
    type Output = Result<(), Error>;
    fn poll(self: Pin<&mut Self>, _cx: &mut TaskCx<'_>) -> Poll<Self::Output> { unsafe {
        let d = self.0;
        if DONE[d] { POLLED_AFTER_DONE = true; }    // an async fn panics when polled after completion
        POLLED_THIS_ROUND[d] = true;
        if READY[d] { DONE[d] = true; FAILED[d] = !RESULT_OK[d]; Poll::Ready(if RESULT_OK[d] { Ok(()) } else { Err(Error(10 + d as u8)) }) } else { Poll::Pending }
    } }
}
/// std::time::Duration as far as the block can use it
#[derive(Clone, Copy, PartialEq, Eq, PartialOrd, Ord)] pub struct Duration { pub ms: u64 }
impl Duration {
    pub fn from_secs(s: u64) -> Duration { Duration { ms: s.saturating_mul(1000) } }
    pub fn from_millis(ms: u64) -> Duration { Duration { ms } }
    pub fn is_zero(&self) -> bool { self.ms == 0 }
    pub fn as_secs(&self) -> u64 { self.ms / 1000 }
    pub fn as_millis(&self) -> u128 { self.ms as u128 }
}
impl std::ops::Div<u32> for Duration { type Output = Duration; fn div(self, d: u32) -> Duration { assert!(d != 0, "Duration / 0 panics"); Duration { ms: self.ms / d as u64 } } }
impl std::ops::Mul<u32> for Duration { type Output = Duration; fn mul(self, d: u32) -> Duration { Duration { ms: self.ms.saturating_mul(d as u64) } } }
pub struct Interval(pub u8);
pub struct Tick<'a>(pub &'a mut Interval);
impl Interval { pub fn tick(&mut self) -> Tick<'_> { Tick(self) } }
impl<'a> Future for Tick<'a> {
    type Output = u8;
    fn poll(self: Pin<&mut Self>, _cx: &mut TaskCx<'_>) -> Poll<u8> { unsafe {
        if TICK_DUE { TICK_DUE = false; if IDLE[0] && IDLE[1] { TICK_FOUND_IDLE = true; } else { TICK_FOUND_BUSY = true; } Poll::Ready(0) } else { Poll::Pending }
    } }
}
pub struct Arc<T>(pub T);
impl<T> std::ops::Deref for Arc<T> { type Target = T; fn deref(&self) -> &T { &self.0 } }
pub struct ContextStatistics(pub usize);
/// ContextStatistics::is_timeout (proved in Verus unit `timeouts`): never for period 0, otherwise "no data for longer than the period"
impl ContextStatistics { pub fn is_timeout(&self, t: Duration) -> bool { unsafe { !t.is_zero() && IDLE[self.0] } } }
#[derive(Clone, Copy, PartialEq, Eq)] pub enum ContextState { ClientShutdown, ServerShutdown }
pub struct Context(pub u8);
impl Context { pub fn set_state(&mut self, s: ContextState) { unsafe { STATES[N_STATES] = if s == ContextState::ClientShutdown { 1 } else { 2 }; N_STATES += 1; } } }
pub struct RwLock(pub u8);
pub struct WGuard(pub Context);
impl std::ops::Deref for WGuard { type Target = Context; fn deref(&self) -> &Context { &self.0 } }
impl std::ops::DerefMut for WGuard { fn deref_mut(&mut self) -> &mut Context { &mut self.0 } }
impl RwLock { pub fn write(&self) -> std::future::Ready<WGuard> { std::future::ready(WGuard(Context(0))) } }
pub type ContextRef = Arc<RwLock>;

// ------------------------------------------------------------------ tokio::select! stand-in (poll based)
pub enum Sel3<A, B, C> { A(A), B(B), C(C), Disabled }
pub mod tokio {
    /// tokio::pin!: shadow the value by a pinned mutable reference to it
    macro_rules! pin { ($x:ident) => { let mut $x = $x; #[allow(unused_mut)] let mut $x = unsafe { std::pin::Pin::new_unchecked(&mut $x) }; }; }
    pub(crate) use pin;
    pub mod time {
        /// tokio::time::interval panics when the period is zero
        pub fn interval(period: crate::Duration) -> crate::Interval { assert!(!period.is_zero(), "tokio::time::interval: `period` must be non-zero"); crate::Interval(0) }
    }
    macro_rules! select {
        // branch collection: `pat = future, if guard => handler` / `pat = future => handler`, handlers are blocks or expressions
        (@acc [$($acc:tt)*] $p:pat = $f:expr, if $c:expr => $h:block , $($rest:tt)*) => { crate::tokio::select!(@acc [$($acc)* ($p, $f, $c, $h)] $($rest)*) };
        (@acc [$($acc:tt)*] $p:pat = $f:expr, if $c:expr => $h:block $($rest:tt)*) => { crate::tokio::select!(@acc [$($acc)* ($p, $f, $c, $h)] $($rest)*) };
        (@acc [$($acc:tt)*] $p:pat = $f:expr, if $c:expr => $h:expr , $($rest:tt)*) => { crate::tokio::select!(@acc [$($acc)* ($p, $f, $c, $h)] $($rest)*) };
        (@acc [$($acc:tt)*] $p:pat = $f:expr, if $c:expr => $h:expr) => { crate::tokio::select!(@acc [$($acc)* ($p, $f, $c, $h)]) };
        (@acc [$($acc:tt)*] $p:pat = $f:expr => $h:block , $($rest:tt)*) => { crate::tokio::select!(@acc [$($acc)* ($p, $f, true, $h)] $($rest)*) };
        (@acc [$($acc:tt)*] $p:pat = $f:expr => $h:block $($rest:tt)*) => { crate::tokio::select!(@acc [$($acc)* ($p, $f, true, $h)] $($rest)*) };
        (@acc [$($acc:tt)*] $p:pat = $f:expr => $h:expr , $($rest:tt)*) => { crate::tokio::select!(@acc [$($acc)* ($p, $f, true, $h)] $($rest)*) };
        (@acc [$($acc:tt)*] $p:pat = $f:expr => $h:expr) => { crate::tokio::select!(@acc [$($acc)* ($p, $f, true, $h)]) };
        (@acc [($p1:pat, $f1:expr, $c1:expr, $h1:expr) ($p2:pat, $f2:expr, $c2:expr, $h2:expr) ($p3:pat, $f3:expr, $c3:expr, $h3:expr)]) => {{
            let __out = {
                let (__c1, __c2, __c3): (bool, bool, bool) = ($c1, $c2, $c3);
                let mut __f1 = std::pin::pin!(if __c1 { Some($f1) } else { None });
                let mut __f2 = std::pin::pin!(if __c2 { Some($f2) } else { None });
                let mut __f3 = std::pin::pin!(if __c3 { Some($f3) } else { None });
                std::future::poll_fn(|cx| {
                    if let Some(f) = __f1.as_mut().as_pin_mut() { if let std::task::Poll::Ready(v) = std::future::Future::poll(f, cx) { return std::task::Poll::Ready(crate::Sel3::A(v)); } }
                    if let Some(f) = __f2.as_mut().as_pin_mut() { if let std::task::Poll::Ready(v) = std::future::Future::poll(f, cx) { return std::task::Poll::Ready(crate::Sel3::B(v)); } }
                    if let Some(f) = __f3.as_mut().as_pin_mut() { if let std::task::Poll::Ready(v) = std::future::Future::poll(f, cx) { return std::task::Poll::Ready(crate::Sel3::C(v)); } }
                    if !(__c1 || __c2 || __c3) { return std::task::Poll::Ready(crate::Sel3::Disabled); }
                    std::task::Poll::Pending
                }).await
            };
            match __out {
                crate::Sel3::A($p1) => $h1,
                crate::Sel3::B($p2) => $h2,
                crate::Sel3::C($p3) => $h3,
                crate::Sel3::Disabled => panic!("all branches are disabled and there is no else branch"),
            }
        }};
        (biased; $($t:tt)*) => { crate::tokio::select!(@acc [] $($t)*) };
    }
    pub(crate) use select;
}

async fn bidi_loop(
    ctx: ContextRef,
    copy_c2s: CopyFut,
    copy_s2c: CopyFut,
    server_stat: Arc<ContextStatistics>,
    client_stat: Arc<ContextStatistics>,
    idle_timeout: Duration,
) -> Result<(), Error> {
    include!("bidi_loop.in.rs");
    Ok(())
}

pub const ROUNDS: usize = 4;

#[cfg(kani)]
#[kani::proof]
#[kani::unwind(6)]
fn bidi_loop_idle_and_close() {
    // the configured idle period: any value, 0 = never close for idleness
    let idle_timeout = Duration::from_secs(kani::any());
    let mut task = std::pin::pin!(bidi_loop(Arc(RwLock(0)), CopyFut(0), CopyFut(1), Arc(ContextStatistics(0)), Arc(ContextStatistics(1)), idle_timeout));
    let mut cx = TaskCx::from_waker(std::task::Waker::noop());
    let mut round = 0;
    let mut finished: Option<Result<(), Error>> = None;
    while round < ROUNDS {
        if finished.is_none() { unsafe {
            // what the outside world does during this scheduling round
            READY = kani::any(); RESULT_OK = kani::any(); IDLE = kani::any();
            if idle_timeout.is_zero() { IDLE = [false; 2]; }   // period 0: no direction ever counts as idle
            if !TICK_DUE { TICK_DUE = kani::any(); }
            let (d0, d1) = (DONE[0], DONE[1]);
            POLLED_THIS_ROUND = [false; 2]; TICK_FOUND_IDLE = false; TICK_FOUND_BUSY = false;
            let n_states_before = N_STATES;
            let tick_due = TICK_DUE;
            let r = task.as_mut().poll(&mut cx);
            assert!(!POLLED_AFTER_DONE, "a finished direction is polled again");
            match r {
                Poll::Pending => {
                    // C13: the loop never goes to sleep on a due tick
                    assert!(!TICK_DUE, "a due idle-check tick was not observed");
                    assert!(!TICK_FOUND_IDLE, "both directions idle at a tick, yet the tunnel stays open");
                    // C04: every direction still running was served in this round
                    assert!(DONE[0] || POLLED_THIS_ROUND[0]);
                    assert!(DONE[1] || POLLED_THIS_ROUND[1]);
                    assert!(!(DONE[0] && DONE[1]));
                    // C04: an error (abort) of either direction ends the tunnel at once, it is not parked
                    assert!(!FAILED[0] && !FAILED[1], "a direction failed, yet the tunnel stays open");
                }
                Poll::Ready(Ok(())) => {
                    assert!(DONE[0] && DONE[1], "Ok before both directions ended");
                    assert!(!TICK_FOUND_IDLE);
                    finished = Some(Ok(()));
                }
                Poll::Ready(Err(e)) => {
                    if e.0 == 1 {
                        // C13: closed for idleness only at a tick that found both directions idle
                        assert!(TICK_FOUND_IDLE, "closed for idleness although a direction carried data recently");
                    } else {
                        // the error of the direction that failed in this round
                        assert!(e.0 == 10 || e.0 == 11);
                        let d = (e.0 - 10) as usize;
                        assert!(DONE[d] && !RESULT_OK[d]);
                        assert!(!TICK_FOUND_IDLE);
                    }
                    finished = Some(Err(e));
                }
            }
            // C04: the end of a direction is recorded exactly once, in the order the directions ended, and only then
            let mut expect = n_states_before;
            if !d0 && DONE[0] && RESULT_OK[0] { assert!(STATES[expect] == 1); expect += 1; }
            if !d1 && DONE[1] && RESULT_OK[1] { assert!(STATES[expect] == 2); expect += 1; }
            assert!(N_STATES == expect);
        } }
        round += 1;
    }
    unsafe {
        kani::cover!(finished == Some(Ok(())));
        kani::cover!(finished == Some(Err(Error(1))) && DONE[0] && !DONE[1]);
        kani::cover!(finished == Some(Err(Error(11))));
        kani::cover!(finished.is_none());
    }
}
fn main() {}
