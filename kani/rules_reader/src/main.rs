// Kani stub-environment unit for `GlobalState::rules` (src/main.rs): the reader side of rule hot-reload (C15, C02).
// Property: "a request is evaluated against one complete rule list -- the one in force before a reload or the one after
// it" -- so whatever rules() hands to process_request must view exactly a COMMITTED list, also while a POST /rules
// holds (or waits for) the write lock; in particular never an empty or default list, which would deny (or, with no
// rules, mis-route) connections during a reload.
// The stub lock plays tokio::sync::RwLock's contract: read().await returns only when no writer holds the lock (a
// pending writer commits its list first); try_read() fails while a writer holds it.
#![allow(dead_code, unused_variables, unused_macros, static_mut_refs, unused_imports, unused_mut)]
const MAX: usize = 2;
#[derive(Clone, Copy, PartialEq, Eq)] pub struct Rule { pub tag: u8 }
#[derive(Clone, Copy, PartialEq, Eq)] pub struct Arc<T>(pub T);
impl<T: Copy> Arc<T> { pub fn clone(&self) -> Self { *self } }
#[derive(Clone, Copy)] pub struct Vec<T: Copy> { pub items: [T; MAX], pub len: usize }
impl Default for Vec<Arc<Rule>> { fn default() -> Self { Vec { items: [Arc(Rule { tag: 0 }); MAX], len: 0 } } }
impl Vec<Arc<Rule>> { pub fn new() -> Self { Self::default() } pub fn to_vec(&self) -> Self { *self } pub fn len(&self) -> usize { self.len } }

static mut STORED: Vec<Arc<Rule>> = Vec { items: [Arc(Rule { tag: 1 }); MAX], len: 0 };
static mut NEW_LEN: usize = 0;
static mut WRITER_HOLDS: bool = false;
static mut N_READ: u32 = 0;
static mut N_TRY: u32 = 0;

pub struct RwLock(pub u8);
pub struct RwLockReadGuard<'a, T>(pub &'a T);
impl<'a, T> std::ops::Deref for RwLockReadGuard<'a, T> { type Target = T; fn deref(&self) -> &T { self.0 } }
pub struct TryLockError;
fn writer_commits() { unsafe { if WRITER_HOLDS { STORED = Vec { items: [Arc(Rule { tag: 2 }); MAX], len: NEW_LEN }; WRITER_HOLDS = false; } } }
impl RwLock {
    pub async fn read(&self) -> RwLockReadGuard<'_, Vec<Arc<Rule>>> { unsafe { N_READ += 1; writer_commits(); RwLockReadGuard(&STORED) } }
    pub fn try_read(&self) -> Result<RwLockReadGuard<'_, Vec<Arc<Rule>>>, TryLockError> {
        unsafe { N_TRY += 1; if WRITER_HOLDS { Err(TryLockError) } else { Ok(RwLockReadGuard(&STORED)) } }
    }
    pub fn blocking_read(&self) -> RwLockReadGuard<'_, Vec<Arc<Rule>>> { unsafe { N_READ += 1; writer_commits(); RwLockReadGuard(&STORED) } }
}
pub struct GlobalState { pub rules: RwLock }

/// what process_request sees of the value rules() returned, whether a guard or a snapshot
pub trait View { fn view(&self) -> Vec<Arc<Rule>>; }
impl View for Vec<Arc<Rule>> { fn view(&self) -> Vec<Arc<Rule>> { *self } }
impl<'a> View for RwLockReadGuard<'a, Vec<Arc<Rule>>> { fn view(&self) -> Vec<Arc<Rule>> { *self.0 } }

include!("rules.in.rs");

fn is_list(v: &Vec<Arc<Rule>>, len: usize, tag: u8) -> bool {
    let mut ok = v.len == len;
    let mut i = 0;
    while i < MAX { if i < v.len && v.items[i].0.tag != tag { ok = false; } i += 1; }
    ok
}

#[cfg(kani)]
#[kani::proof]
#[kani::unwind(4)]
fn rules_view_is_a_committed_list() {
    let old_len: usize = kani::any();
    let new_len: usize = kani::any();
    kani::assume(old_len <= MAX && new_len <= MAX);
    let holds: bool = kani::any();
    unsafe { STORED.len = old_len; NEW_LEN = new_len; WRITER_HOLDS = holds; }
    let st = GlobalState { rules: RwLock(0) };
    let got = run_ready(st.rules()).view();
    // the list in force before the reload, or the complete new one -- nothing else, whatever the lock's state
    assert!(is_list(&got, old_len, 1) || is_list(&got, new_len, 2), "rules() handed out something that is not a committed rule list");
    if !holds { assert!(is_list(&got, old_len, 1)); }
    kani::cover!(holds && old_len == 2 && new_len == 1);
    kani::cover!(!holds && old_len == 2);
}

pub fn run_ready<F: std::future::Future>(f: F) -> F::Output {
    let mut f = std::pin::pin!(f);
    let mut cx = std::task::Context::from_waker(std::task::Waker::noop());
    match f.as_mut().poll(&mut cx) { std::task::Poll::Ready(v) => v, std::task::Poll::Pending => panic!("stub future pending") }
}
fn main() {}
