// Kani second decider for `AuthData::check` (src/common/auth.rs), property C07: with `required`, a request is accepted
// only for credentials that are LISTED (user and password both equal) or that the external command accepts; without
// credentials it is refused.  The method text is compiled verbatim; `String` is a heap-free inline string of at most
// MAXS ASCII bytes that derefs to a real `str`, so byte-level rewrites of the comparison are executed, not modelled.
#![allow(dead_code, unused_variables, unused_macros, static_mut_refs, unused_imports, unused_mut)]
// `tracing::level!(..)` written with its path by an edit keeps compiling (log statements have no effect on the checks)
pub mod tracing {
    macro_rules! trace { ($($t:tt)*) => { () } }
    macro_rules! debug { ($($t:tt)*) => { () } }
    macro_rules! info { ($($t:tt)*) => { () } }
    macro_rules! warn_ { ($($t:tt)*) => { () } }
    macro_rules! error { ($($t:tt)*) => { () } }
    pub(crate) use {trace, debug, info, warn_ as warn, error};
}
macro_rules! trace { ($($t:tt)*) => { () } }
pub const MAXS: usize = 2;
pub const MAXU: usize = 2;

#[derive(Clone, Copy, Debug)]
pub struct FixedStr { pub b: [u8; MAXS], pub n: usize }
impl std::ops::Deref for FixedStr { type Target = str; fn deref(&self) -> &str { unsafe { std::str::from_utf8_unchecked(&self.b[..self.n]) } } }
impl PartialEq for FixedStr { fn eq(&self, o: &FixedStr) -> bool { self.n == o.n && (self.n < 1 || self.b[0] == o.b[0]) && (self.n < 2 || self.b[1] == o.b[1]) } }
impl PartialEq<str> for FixedStr { fn eq(&self, o: &str) -> bool { let s: &str = self; s == o } }
impl FixedStr { pub fn as_str(&self) -> &str { self } pub fn len(&self) -> usize { self.n } pub fn is_empty(&self) -> bool { self.n == 0 } pub fn as_bytes(&self) -> &[u8] { &self.b[..self.n] } }
type String = FixedStr;

#[derive(Clone, Copy, Debug)]
pub struct UserEntry { username: String, password: String }
pub struct Users { pub items: [UserEntry; MAXU], pub n: usize }
impl Users { pub fn iter(&self) -> std::slice::Iter<'_, UserEntry> { self.items[..self.n].iter() } pub fn is_empty(&self) -> bool { self.n == 0 } pub fn len(&self) -> usize { self.n } }

static mut CMD_VERDICT: bool = false;
static mut N_CMD: u32 = 0;
static mut CMD_ASKED_FOR_THIS_USER: bool = true;
pub struct AuthData { pub required: bool, users: Users }
impl AuthData {
    /// contract of auth_cmd: the external command's (or cache's) verdict for exactly these credentials
    pub async fn auth_cmd(&self, user: &(String, String)) -> bool {
        unsafe { N_CMD += 1; CMD_ASKED_FOR_THIS_USER = user.0 == PRESENTED.0 && user.1 == PRESENTED.1; CMD_VERDICT }
    }
}
static mut PRESENTED: (String, String) = (FixedStr { b: [0; MAXS], n: 0 }, FixedStr { b: [0; MAXS], n: 0 });

include!("check.in.rs");

#[cfg(kani)]
fn any_str() -> FixedStr {
    let b: [u8; MAXS] = kani::any();
    kani::assume(b[0] < 128 && b[1] < 128);
    let n: usize = kani::any();
    kani::assume(n <= MAXS);
    FixedStr { b, n }
}

#[cfg(kani)]
#[kani::proof]
#[kani::unwind(5)]
fn auth_check_all_cases() {
    let a = AuthData { required: kani::any(), users: Users { items: [UserEntry { username: any_str(), password: any_str() }, UserEntry { username: any_str(), password: any_str() }], n: { let n: usize = kani::any(); kani::assume(n <= MAXU); n } } };
    let has: bool = kani::any();
    let cred = (any_str(), any_str());
    unsafe { PRESENTED = cred; CMD_VERDICT = kani::any(); }
    let user = if has { Some(cred) } else { None };
    let ret = run_ready(a.check(&user));
    unsafe {
        let mut listed = false;
        let mut i = 0;
        while i < MAXU { if i < a.users.n && a.users.items[i].username == cred.0 && a.users.items[i].password == cred.1 { listed = true; } i += 1; }
        if !a.required { assert!(ret); }
        else if !has { assert!(!ret); }
        else {
            // accepted iff listed (both fields EQUAL) or the command said yes -- for exactly these credentials
            assert!(ret == (listed || (N_CMD >= 1 && CMD_VERDICT)));
            if N_CMD >= 1 { assert!(CMD_ASKED_FOR_THIS_USER); }
            if !listed && !CMD_VERDICT { assert!(!ret); }
        }
        kani::cover!(a.required && has && ret && listed);
        kani::cover!(a.required && has && !ret);
    }
}
/// every stub future is immediately ready, so the task completes within one poll (cheaper than kani::block_on's loop)
pub fn run_ready<F: std::future::Future>(f: F) -> F::Output {
    let mut f = std::pin::pin!(f);
    let mut cx = std::task::Context::from_waker(std::task::Waker::noop());
    match f.as_mut().poll(&mut cx) { std::task::Poll::Ready(v) => v, std::task::Poll::Pending => panic!("stub future pending") }
}
fn main() {}
