// Kani stub-environment unit for `async_splice` (src/common/splice.rs): the wrapper around splice(2) whose CONTRACT the
// unit `copy_half` assumes ("moves the bytes the kernel says it moved; 0 only at end of stream; or an error").
// Properties C01 / C04: no byte is dropped or invented by the wrapper and end of stream is reported only when the
// kernel reported it.  The function text is extracted from /repo on every run and compiled verbatim; tokio's AsyncFd
// readiness guards, nix's splice() and the poll(2) helper `test_read_write_readiness` are stubs with symbolic outcomes
// (the FFI itself is outside every verifier here).  Bounded by the number of EWOULDBLOCK rounds.
#![allow(dead_code, unused_variables, unused_macros, static_mut_refs, unused_imports, unused_mut, non_upper_case_globals)]
pub mod tracing {
    macro_rules! trace { ($($t:tt)*) => { () } }
    macro_rules! debug { ($($t:tt)*) => { () } }
    macro_rules! info { ($($t:tt)*) => { () } }
    macro_rules! warn_ { ($($t:tt)*) => { () } }
    macro_rules! error { ($($t:tt)*) => { () } }
    pub(crate) use {trace, debug, info, warn_ as warn, error};
}
use std::future::{ready, Ready};

#[cfg(kani)] fn nondet_bool() -> bool { kani::any() }
#[cfg(not(kani))] fn nondet_bool() -> bool { false }
#[cfg(kani)] fn nondet_usize() -> usize { kani::any() }
#[cfg(not(kani))] fn nondet_usize() -> usize { 0 }
#[cfg(kani)] fn assume(b: bool) { kani::assume(b) }
#[cfg(not(kani))] fn assume(b: bool) {}

/// std::io::Error / nix Errno as far as the function uses them
pub mod io {
    #[derive(Clone, Copy, PartialEq, Eq, Debug)] pub struct Error(pub i32);
    impl Error { pub fn from_raw_os_error(e: i32) -> Error { Error(e) } pub fn last_os_error() -> Error { Error(-1) } }
    pub type Result<T> = std::result::Result<T, Error>;
}
pub type IoResult<T> = io::Result<T>;
#[derive(Clone, Copy, PartialEq, Eq, Debug)] #[repr(i32)] pub enum Errno { EWOULDBLOCK = 11, EPIPE = 32, ECONNRESET = 104, EINVAL = 22 }
impl Errno { pub const EAGAIN: Errno = Errno::EWOULDBLOCK; }
#[derive(Clone, Copy, PartialEq, Eq)] pub struct SpliceFFlags(pub u32);
impl SpliceFFlags {
    pub const SPLICE_F_NONBLOCK: SpliceFFlags = SpliceFFlags(2);
    pub const SPLICE_F_MOVE: SpliceFFlags = SpliceFFlags(1);
    pub const SPLICE_F_MORE: SpliceFFlags = SpliceFFlags(4);
    pub fn contains(&self, o: SpliceFFlags) -> bool { self.0 & o.0 == o.0 }
}
impl std::ops::BitOr for SpliceFFlags { type Output = SpliceFFlags; fn bitor(self, o: SpliceFFlags) -> SpliceFFlags { SpliceFFlags(self.0 | o.0) } }
impl std::ops::BitOrAssign for SpliceFFlags { fn bitor_assign(&mut self, o: SpliceFFlags) { self.0 |= o.0; } }
pub type RawFd = i32;
pub trait AsRawFd { fn as_raw_fd(&self) -> RawFd; }
pub struct OwnedFd(pub i32);
impl AsRawFd for OwnedFd { fn as_raw_fd(&self) -> RawFd { self.0 } }

// ------------------------------------------------------------------ ghost world
static mut N_SPLICE: u32 = 0;            // calls of splice(2)
static mut LAST_SPLICE: isize = -1;      // what the last call returned (bytes), -1 = an error
static mut LAST_LEN: usize = 0;          // `len` handed to the last call
static mut LAST_FLAGS: u32 = 0;
static mut LAST_IN: i32 = 0;
static mut LAST_OUT: i32 = 0;
static mut ROUNDS: u32 = 0;
pub const MAX_ROUNDS: u32 = 3;
static mut READY_ERR: bool = false;      // a readiness wait failed

/// nix::fcntl::splice: the kernel moves 0..=len bytes (0 = end of stream), or fails; EWOULDBLOCK = try again later
pub fn splice(fd_in: RawFd, _off_in: Option<&mut i64>, fd_out: RawFd, _off_out: Option<&mut i64>, len: usize, flags: SpliceFFlags) -> Result<usize, Errno> { unsafe {
    N_SPLICE += 1; LAST_LEN = len; LAST_FLAGS = flags.0; LAST_IN = fd_in; LAST_OUT = fd_out; ROUNDS += 1;
    let k: u8 = if nondet_bool() { 0 } else if nondet_bool() { 1 } else { 2 };
    if k == 0 && ROUNDS < MAX_ROUNDS { LAST_SPLICE = -1; return Err(Errno::EWOULDBLOCK); }
    if k == 1 { LAST_SPLICE = -1; return Err(if nondet_bool() { Errno::EPIPE } else { Errno::ECONNRESET }); }
    let n = nondet_usize(); assume(n <= len);
    LAST_SPLICE = n as isize;
    Ok(n)
} }
/// poll(2) on both descriptors: (reader ready, writer ready) or an error
pub unsafe fn test_read_write_readiness(_r: RawFd, _w: RawFd) -> io::Result<(bool, bool)> { if nondet_bool() { READY_ERR = true; Err(io::Error(-2)) } else { Ok((nondet_bool(), nondet_bool())) } }

/// tokio::io::Ready as reported by epoll: the read-closed bit (RDHUP) is set as soon as the peer's FIN has ARRIVED,
/// also while data queued before it is still unread
#[derive(Clone, Copy)] pub struct ReadyBits { pub read_closed: bool, pub write_closed: bool }
impl ReadyBits { pub fn is_read_closed(&self) -> bool { self.read_closed } pub fn is_write_closed(&self) -> bool { self.write_closed } pub fn is_readable(&self) -> bool { true } pub fn is_writable(&self) -> bool { true } }
pub struct ReadyGuard { bits: ReadyBits }
impl ReadyGuard { pub fn clear_ready(&mut self) {} pub fn retain_ready(&mut self) {} pub fn ready(&self) -> ReadyBits { self.bits } }
pub struct AsyncFd<T>(pub T);
impl<T: AsRawFd> AsyncFd<T> {
    fn guard() -> Ready<io::Result<ReadyGuard>> { unsafe { if nondet_bool() { READY_ERR = true; ready(Err(io::Error(-3))) } else { ready(Ok(ReadyGuard { bits: ReadyBits { read_closed: nondet_bool(), write_closed: nondet_bool() } })) } } }
    pub fn readable(&self) -> Ready<io::Result<ReadyGuard>> { Self::guard() }
    pub fn readable_mut(&mut self) -> Ready<io::Result<ReadyGuard>> { Self::guard() }
    pub fn writable(&self) -> Ready<io::Result<ReadyGuard>> { Self::guard() }
    pub fn get_ref(&self) -> &T { &self.0 }
}
impl<T: AsRawFd> AsRawFd for AsyncFd<T> { fn as_raw_fd(&self) -> RawFd { self.0.as_raw_fd() } }

/// nix::sys::socket::shutdown: which half of the connection is closed is the point of the call
static mut SHUT_FD: i32 = -1;
static mut SHUT_HOW: u8 = 0;          // 1 = Read, 2 = Write, 3 = Both
static mut SHUT_OK: bool = true;
pub mod nix { pub mod sys { pub mod socket {
    #[derive(Clone, Copy, PartialEq, Eq)] pub enum Shutdown { Read, Write, Both }
    pub fn shutdown(fd: crate::RawFd, how: Shutdown) -> Result<(), crate::Errno> { unsafe {
        crate::SHUT_FD = fd; crate::SHUT_HOW = match how { Shutdown::Read => 1, Shutdown::Write => 2, Shutdown::Both => 3 };
        if crate::SHUT_OK { Ok(()) } else { Err(crate::Errno::EPIPE) }
    } }
} } }

include!("async_splice.in.rs");

pub fn run_ready<F: std::future::Future>(f: F) -> F::Output {
    let mut f = std::pin::pin!(f);
    let mut cx = std::task::Context::from_waker(std::task::Waker::noop());
    match f.as_mut().poll(&mut cx) { std::task::Poll::Ready(v) => v, std::task::Poll::Pending => panic!("stub future pending") }
}

#[cfg(kani)]
#[kani::proof]
#[kani::unwind(6)]
fn async_splice_reports_what_the_kernel_did() {
    let mut fin = AsyncFd(OwnedFd(7));
    let fout = AsyncFd(OwnedFd(8));
    let len: usize = kani::any();
    kani::assume(len <= 65536);
    let more: bool = kani::any();
    let r = run_ready(async_splice(&mut fin, &fout, len, more));
    unsafe {
        match r {
            Ok(n) => {
                // the result is what the LAST splice(2) call moved -- in particular end of stream (0) is reported only
                // when the kernel reported it for this descriptor pair and this length
                assert!(N_SPLICE >= 1, "a result without asking the kernel");
                assert!(LAST_SPLICE >= 0 && n == LAST_SPLICE as usize);
                assert!(LAST_IN == 7 && LAST_OUT == 8 && LAST_LEN == len);
                assert!(LAST_FLAGS & 2 != 0, "non-blocking");
                assert!((LAST_FLAGS & 4 != 0) == more);
            }
            Err(_) => { assert!(READY_ERR || (N_SPLICE >= 1 && LAST_SPLICE < 0), "an error that nothing reported"); }
        }
        kani::cover!(r == Ok(0));
        kani::cover!(matches!(r, Ok(n) if n > 0) && N_SPLICE == 2);
        kani::cover!(r.is_err() && !READY_ERR);
    }
}
#[cfg(kani)]
#[kani::proof]
fn shutdown_write_is_a_half_close() {
    unsafe { SHUT_OK = kani::any(); }
    let fd = AsyncFd(OwnedFd(8));
    let r = shutdown_write(&fd);
    unsafe {
        // C04: the end of ONE direction is relayed: only the sending side of this descriptor is shut down (the opposite
        // direction runs on a duplicate of the same socket and must keep flowing)
        assert!(SHUT_FD == 8 && SHUT_HOW == 2, "not a half-close of the destination's sending side");
        assert!(r.is_ok() == SHUT_OK);
        kani::cover!(r.is_err());
    }
}
fn main() {}
