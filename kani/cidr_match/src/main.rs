// Kani stub-environment unit for the body of `function!(CidrMatch ..)` (src/rules/script_ext.rs), property C02:
// "cidr_match agrees with standard CIDR containment for every IPv4/IPv6 address and prefix".  Second decider next to
// Verus unit `cidr_match`: the body is compiled verbatim against the REAL std::net::IpAddr; the text parsers return
// fully symbolic addresses / prefixes, `AnyIpCidr::contains` is standard containment.  Loop-free, full domain.
#![allow(dead_code, unused_variables, unused_macros, static_mut_refs, unused_imports, unused_mut)]
// `tracing::level!(..)` written with its path by an edit keeps compiling (log statements have no effect on the checks)
pub mod tracing {
    macro_rules! trace { ($($t:tt)*) => { () } }
    macro_rules! debug { ($($t:tt)*) => { () } }
    macro_rules! info { ($($t:tt)*) => { () } }
    macro_rules! warn_ { ($($t:tt)*) => { () } }
    macro_rules! error { ($($t:tt)*) => { () } }
    pub(crate) use {trace, debug, info, warn_ as warn, error};
}
macro_rules! warn { ($($t:tt)*) => { () } }
use std::net::{IpAddr, Ipv4Addr, Ipv6Addr};
use std::convert::TryInto;

#[derive(Clone, Copy, Debug)] pub struct Error(pub u8);
#[derive(Clone, Copy, PartialEq, Eq, Debug)] pub enum Value { Str(u8), Boolean(bool) }
impl From<bool> for Value { fn from(b: bool) -> Self { Value::Boolean(b) } }
#[derive(Clone, Copy)] pub struct StrTok(pub u8);
impl TryFrom<Value> for StrTok { type Error = Error; fn try_from(v: Value) -> Result<StrTok, Error> { match v { Value::Str(t) => Ok(StrTok(t)), _ => Err(Error(0)) } } }
type String = StrTok;

#[derive(Clone, Copy, Debug)]
pub enum AnyIpCidr { Any, V4 { net: u32, len: u8 }, V6 { net: u128, len: u8 } }
impl AnyIpCidr {
    /// standard CIDR containment
    pub fn contains(&self, ip: &IpAddr) -> bool {
        match (*self, *ip) {
            (AnyIpCidr::Any, _) => true,
            (AnyIpCidr::V4 { net, len }, IpAddr::V4(a)) => len == 0 || (u32::from(a) ^ net) >> (32 - len as u32) == 0,
            (AnyIpCidr::V6 { net, len }, IpAddr::V6(a)) => len == 0 || (u128::from(a) ^ net) >> (128 - len as u32) == 0,
            _ => false,
        }
    }
}
static mut IP: Option<IpAddr> = None;
static mut CIDR: Option<AnyIpCidr> = None;
#[derive(Debug)] pub struct ParseErr;
pub fn vf_parse_ip(_s: &StrTok) -> Result<IpAddr, ParseErr> { unsafe { IP.ok_or(ParseErr) } }
pub fn vf_parse_cidr(_s: &StrTok) -> Result<AnyIpCidr, ParseErr> { unsafe { CIDR.ok_or(ParseErr) } }

// `fn cidr_match_body(ip: Value, cidr: Value) -> Result<Value, Error>` + the verbatim block (signature line added by unit.json prefix)
include!("cidr_body.in.rs");

#[cfg(kani)]
#[kani::proof]
fn cidr_match_full_domain() {
    let ip: Option<IpAddr> = if kani::any() { Some(if kani::any() { IpAddr::V4(Ipv4Addr::from(kani::any::<u32>())) } else { IpAddr::V6(Ipv6Addr::from(kani::any::<u128>())) }) } else { None };
    let cidr: Option<AnyIpCidr> = if kani::any() {
        let k: u8 = kani::any();
        Some(if k == 0 { AnyIpCidr::Any } else if k == 1 {
            let len: u8 = kani::any(); kani::assume(len <= 32);
            let net: u32 = kani::any(); kani::assume(len == 32 || net << len as u32 == 0);
            AnyIpCidr::V4 { net, len }
        } else {
            let len: u8 = kani::any(); kani::assume(len <= 128);
            let net: u128 = kani::any(); kani::assume(len == 128 || net << len as u32 == 0);
            AnyIpCidr::V6 { net, len }
        })
    } else { None };
    unsafe { IP = ip; CIDR = cidr; }
    let ret = cidr_match_body(Value::Str(1), Value::Str(2));
    let expect = match (ip, cidr) { (Some(a), Some(c)) => c.contains(&a), _ => false };
    assert!(matches!(ret, Ok(Value::Boolean(b)) if b == expect));
    kani::cover!(matches!(ret, Ok(Value::Boolean(true))) && matches!(ip, Some(IpAddr::V6(_))));
    kani::cover!(matches!(ret, Ok(Value::Boolean(false))) && ip.is_some() && cidr.is_some());
}
fn main() {}
