// Kani stub-environment unit for `GlobalState::set_rules` (src/main.rs of redproxy-rs), property C15.
// The method text is extracted from /repo on every run into set_rules.in.rs and compiled verbatim inside
// `impl GlobalState { .. }`.  Vec / Arc / RwLock / the connector map are heap-free stubs; Rule::init and the
// name lookup play their contracts with symbolic outcomes.  Bounded by the rule-list length (MAX), complete over
// every position of an init failure / unknown target / deny rule.
#![allow(dead_code, unused_variables, unused_macros, static_mut_refs, unused_imports, unused_mut)]
// `tracing::level!(..)` written with its path by an edit keeps compiling (log statements have no effect on the checks)
pub mod tracing {
    macro_rules! trace { ($($t:tt)*) => { () } }
    macro_rules! debug { ($($t:tt)*) => { () } }
    macro_rules! info { ($($t:tt)*) => { () } }
    macro_rules! warn_ { ($($t:tt)*) => { () } }
    macro_rules! error { ($($t:tt)*) => { () } }
    pub(crate) use {trace, debug, info, warn_ as warn, error};
}

macro_rules! format { ($($t:tt)*) => { Msg } }
pub const MAX: usize = 3;
pub const N_CONN: usize = 2;

#[derive(Clone, Copy)] pub struct Msg;
#[derive(Clone, Copy, Debug)] pub struct Error;
pub fn err_msg<T>(_m: T) -> Error { Error }

#[derive(Clone, Copy, PartialEq, Eq)]
pub struct ConnRef { pub id: usize }

/// a rule's target name: the reserved word, the name of an existing connector, or a name nobody has
#[derive(Clone, Copy, PartialEq, Eq)]
pub enum TName { Deny, Known(usize), Unknown }
impl PartialEq<&str> for TName {
    fn eq(&self, other: &&str) -> bool { matches!(self, TName::Deny) && other.len() == 4 && other.as_bytes()[0] == b'd' && other.as_bytes()[1] == b'e' && other.as_bytes()[2] == b'n' && other.as_bytes()[3] == b'y' }
}

#[derive(Clone, Copy)]
pub struct Rule { pub name: TName, pub target: Option<ConnRef>, pub init_ok: bool, pub inited: bool, pub tag: u8 }
static mut N_INIT: u32 = 0;
impl Rule {
    /// contract of Rule::init: compiles + type-checks the filter; may fail; only a successful init arms the rule
    pub fn init(&mut self) -> Result<(), Error> {
        unsafe { N_INIT += 1; }
        if self.init_ok { self.inited = true; Ok(()) } else { Err(Error) }
    }
    pub fn target_name(&self) -> TName { self.name }
}

/// Arc<T> owning its value inline: uniquely owned, so get_mut always succeeds (as in the real call sites,
/// where the rules have just been deserialised)
#[derive(Clone, Copy)]
pub struct Arc<T>(pub T);
impl<T> Arc<T> { pub fn get_mut(this: &mut Arc<T>) -> Option<&mut T> { Some(&mut this.0) } }
impl<T> std::ops::Deref for Arc<T> { type Target = T; fn deref(&self) -> &T { &self.0 } }

#[derive(Clone, Copy)]
pub struct Vec<T: Copy> { pub items: [T; MAX], pub len: usize }
pub struct VecIntoIter<T: Copy> { v: Vec<T>, pos: usize }
impl<T: Copy> Iterator for VecIntoIter<T> { type Item = T; fn next(&mut self) -> Option<T> { if self.pos < self.v.len { let x = self.v.items[self.pos]; self.pos += 1; Some(x) } else { None } } }
impl<T: Copy> IntoIterator for Vec<T> { type Item = T; type IntoIter = VecIntoIter<T>; fn into_iter(self) -> VecIntoIter<T> { VecIntoIter { v: self, pos: 0 } } }
impl<T: Copy> Vec<T> {
    pub fn iter_mut(&mut self) -> std::slice::IterMut<'_, T> { self.items[..self.len].iter_mut() }
    pub fn iter(&self) -> std::slice::Iter<'_, T> { self.items[..self.len].iter() }
    pub fn len(&self) -> usize { self.len }
    pub fn is_empty(&self) -> bool { self.len == 0 }
    pub fn clear(&mut self) { self.len = 0; }
    pub fn get(&self, i: usize) -> Option<&T> { if i < self.len { Some(&self.items[i]) } else { None } }
    pub fn get_mut(&mut self, i: usize) -> Option<&mut T> { if i < self.len { Some(&mut self.items[i]) } else { None } }
    pub fn truncate(&mut self, n: usize) { if n < self.len { self.len = n; } }
    pub fn push(&mut self, x: T) { assert!(self.len < MAX, "stub Vec capacity"); self.items[self.len] = x; self.len += 1; }
}

impl<T: Copy> std::ops::Index<usize> for Vec<T> { type Output = T; fn index(&self, i: usize) -> &T { assert!(i < self.len, "index out of bounds"); &self.items[i] } }
impl<T: Copy> std::ops::IndexMut<usize> for Vec<T> { fn index_mut(&mut self, i: usize) -> &mut T { assert!(i < self.len, "index out of bounds"); &mut self.items[i] } }
pub struct ConnMap { pub conns: [ConnRef; N_CONN] }
impl ConnMap {
    pub fn get(&self, name: TName) -> Option<&ConnRef> {
        match name { TName::Known(i) => Some(&self.conns[i]), _ => None }
    }
}

const OLD_RULE: Rule = Rule { name: TName::Deny, target: None, init_ok: true, inited: true, tag: 1 };
static mut STORED: Vec<Arc<Rule>> = Vec { items: [Arc(OLD_RULE); MAX], len: 0 };
static mut OLD_LEN: usize = 0;
static mut NEW_LEN: usize = 0;
static mut N_GUARDS: u32 = 0;
static mut RELEASED_PARTIAL: bool = false;
/// is the stored list exactly the old one
fn stored_is_old() -> bool { unsafe {
    let mut ok = STORED.len == OLD_LEN;
    let mut i = 0;
    while i < MAX { if i < STORED.len && STORED.items[i].0.tag != 1 { ok = false; } i += 1; }
    ok
} }
/// is the stored list the complete new one (every rule of the call, armed)
fn stored_is_new() -> bool { unsafe {
    let mut ok = STORED.len == NEW_LEN;
    let mut i = 0;
    while i < MAX { if i < STORED.len && (STORED.items[i].0.tag != 2 || !STORED.items[i].0.inited) { ok = false; } i += 1; }
    ok
} }
pub struct RwLock(pub u8);
pub struct WriteGuard(pub u8);
impl std::ops::Deref for WriteGuard { type Target = Vec<Arc<Rule>>; fn deref(&self) -> &Self::Target { unsafe { &STORED } } }
impl std::ops::DerefMut for WriteGuard { fn deref_mut(&mut self) -> &mut Self::Target { unsafe { &mut STORED } } }
/// whenever the write lock is released, readers can see the list: it must be entirely old or entirely new
impl Drop for WriteGuard { fn drop(&mut self) { unsafe { if !(stored_is_old() || stored_is_new()) { RELEASED_PARTIAL = true; } } } }
impl RwLock { pub async fn write(&self) -> WriteGuard { unsafe { N_GUARDS += 1; } WriteGuard(0) } }

pub struct GlobalState { pub rules: RwLock, pub connectors: ConnMap }

// `impl GlobalState { <verbatim method text> }` -- the wrapper lines are added by the extractor (unit.json prefix/suffix)
include!("set_rules.in.rs");

#[cfg(kani)]
fn any_rule() -> Arc<Rule> {
    let k: u8 = kani::any();
    let id: usize = kani::any();
    kani::assume(id < N_CONN);
    let name = if k == 0 { TName::Deny } else if k == 1 { TName::Known(id) } else { TName::Unknown };
    Arc(Rule { name, target: None, init_ok: kani::any(), inited: false, tag: 2 })
}

#[cfg(kani)]
fn run(bound: usize) {
    let n: usize = kani::any();
    kani::assume(n <= bound);
    let new_rules: Vec<Arc<Rule>> = Vec { items: [any_rule(), any_rule(), any_rule()], len: n };
    let st = GlobalState { rules: RwLock(0), connectors: ConnMap { conns: [ConnRef { id: 0 }, ConnRef { id: 1 }] } };
    unsafe {
        // the list in force before the call (arbitrary length)
        let old_len: usize = kani::any();
        kani::assume(old_len <= MAX);
        STORED.len = old_len;
        OLD_LEN = old_len;
        NEW_LEN = n;
    }
    let ret = run_ready(st.set_rules(new_rules));

    // expected outcome from the PROPERTY: accepted iff every rule compiles/type-checks and names deny or an existing upstream
    let mut all_ok = true;
    let mut i = 0;
    while i < MAX {
        if i < n {
            let r = new_rules.items[i].0;
            if !r.init_ok || r.name == TName::Unknown { all_ok = false; }
        }
        i += 1;
    }
    unsafe {
        assert!(ret.is_ok() == all_ok);
        // atomic for readers: no release of the write lock ever exposed a partly replaced list
        assert!(!RELEASED_PARTIAL);
        if ret.is_err() {
            // all-or-nothing: the previous list stays fully in force
            assert!(stored_is_old());
        } else {
            // replaced by the new list, every rule armed and resolved to the connector of its name
            assert!(stored_is_new() && N_GUARDS >= 1);
            let mut j = 0;
            while j < MAX {
                if j < n {
                    let r = STORED.items[j].0;
                    assert!(r.name == new_rules.items[j].0.name);
                    match r.name {
                        TName::Deny => assert!(r.target.is_none()),
                        TName::Known(id) => assert!(r.target == Some(ConnRef { id })),
                        TName::Unknown => assert!(false),
                    }
                }
                j += 1;
            }
        }
    }
}

#[cfg(kani)]
#[kani::proof]
#[kani::unwind(5)]
fn set_rules_le3() { run(3) }

#[cfg(kani)]
#[kani::proof]
#[kani::unwind(5)]
fn set_rules_cover() {
    run(2);
    unsafe { kani::cover!(N_GUARDS >= 1 && STORED.len == 2 && stored_is_new()); kani::cover!(N_GUARDS == 0 && N_INIT == 2); kani::cover!(N_GUARDS == 0 && N_INIT == 1); }
}

/// every stub future is immediately ready, so the task completes within one poll (cheaper than kani::block_on's loop)
pub fn run_ready<F: std::future::Future>(f: F) -> F::Output {
    let mut f = std::pin::pin!(f);
    let mut cx = std::task::Context::from_waker(std::task::Waker::noop());
    match f.as_mut().poll(&mut cx) { std::task::Poll::Ready(v) => v, std::task::Poll::Pending => panic!("stub future pending") }
}
fn main() {}
