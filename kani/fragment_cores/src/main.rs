// Kani second decider for the integer cores of src/common/fragment.rs (C11, C10, C05): `div_ceil` and
// `MakeFragments::new` compiled verbatim, loop-free, over the FULL domain of usize / u16 arguments.
// (Verus unit `fragment` proves the same contracts unbounded; this unit still decides when an edit removes the statement
// a proof hint was anchored on, and its counterexamples are concrete.)
#![allow(dead_code, unused_variables, unused_mut)]
// `tracing::level!(..)` written with its path by an edit keeps compiling (log statements have no effect on the checks)
pub mod tracing {
    macro_rules! trace { ($($t:tt)*) => { () } }
    macro_rules! debug { ($($t:tt)*) => { () } }
    macro_rules! info { ($($t:tt)*) => { () } }
    macro_rules! warn_ { ($($t:tt)*) => { () } }
    macro_rules! error { ($($t:tt)*) => { () } }
    pub(crate) use {trace, debug, info, warn_ as warn, error};
}

pub trait Buf { fn remaining(&self) -> usize; }
pub struct LenBuf(pub usize);
impl Buf for LenBuf { fn remaining(&self) -> usize { self.0 } }

include!("cores.in.rs");

#[cfg(kani)]
#[kani::proof]
fn div_ceil_bounded() {
    // BOUNDED stand-in (64-bit division is too expensive for CBMC over the full domain): a in 0..=0xFFF or within 0xF of
    // usize::MAX (where an `a + b` style rewrite overflows), b in 1..=0x3F
    let a: usize = kani::any();
    let b: usize = kani::any();
    kani::assume(a <= 0xFFF || a >= usize::MAX - 0xF);
    kani::assume(b > 0 && b <= 0x3F);
    let r = div_ceil(a, b);
    let expect = a / b + if a % b != 0 { 1 } else { 0 };
    assert!(r == expect);
}

#[cfg(kani)]
#[kani::proof]
fn make_fragments_new_bounded() {
    // BOUNDED stand-in: mtu in 0..=68, len in 0..=0x3FFF (covers the 127-fragment boundary for every such mtu)
    let mtu: usize = kani::any();
    let len: usize = kani::any();
    let id: u16 = kani::any();
    kani::assume(mtu <= 68 && len <= 0x3FFF);
    let m = MakeFragments::new(id, mtu, LenBuf(len));
    let fits = mtu > 4 && len <= 127 * (mtu - 4);
    assert!(m.is_some() == fits);
    if let Some(m) = m {
        let size = mtu - 4;
        assert!(m.id == id && m.mtu == mtu && m.next == 0 && m.buf.0 == len);
        assert!((m.total as usize) * size >= len);
        assert!(m.total == 0 || ((m.total as usize) - 1) * size < len);
    }
}
fn main() {}
