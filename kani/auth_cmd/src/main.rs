// Kani stub-environment unit for `AuthData::auth_cmd` and the verdict `Cache` (src/common/auth.rs), property C07:
// "... a SOCKS username/password accepted by ... the external command ... and a cached password verdict is reused only
// for the identical username and password and only until it expires".
// `fn auth_cmd`, `struct Cache` and `Cache::check` / `Cache::set` are extracted from /repo on every run and compiled
// verbatim.  Strings are 2-byte inline strings that deref to a real `str`; HashMap / Mutex / Arc / tokio::spawn /
// tokio::time::sleep / tokio::process::Command are small stubs with a ghost clock and a ghost record of every process
// that was started.  The harness plays a history of two authentication attempts with time passing in between.
#![allow(dead_code, unused_variables, unused_macros, static_mut_refs, unused_imports, unused_mut)]
// `tracing::level!(..)` written with its path by an edit keeps compiling (log statements have no effect on the checks)
pub mod tracing {
    macro_rules! trace { ($($t:tt)*) => { () } }
    macro_rules! debug { ($($t:tt)*) => { () } }
    macro_rules! info { ($($t:tt)*) => { () } }
    macro_rules! warn_ { ($($t:tt)*) => { () } }
    macro_rules! error { ($($t:tt)*) => { () } }
    pub(crate) use {trace, debug, info, warn_ as warn, error};
}
use std::future::{ready, Future, Ready};
use std::pin::Pin;
use std::task::{Context as TaskCx, Poll};
macro_rules! trace { ($($t:tt)*) => { () } }
pub const MAXS: usize = 2;

#[derive(Clone, Copy, Default)]
pub struct FixedStr { pub b: [u8; MAXS], pub n: usize }
impl std::ops::Deref for FixedStr { type Target = str; fn deref(&self) -> &str { unsafe { std::str::from_utf8_unchecked(&self.b[..self.n]) } } }
impl PartialEq for FixedStr { fn eq(&self, o: &FixedStr) -> bool { self.n == o.n && (self.n < 1 || self.b[0] == o.b[0]) && (self.n < 2 || self.b[1] == o.b[1]) } }
impl Eq for FixedStr {}
impl FixedStr {
    pub fn to_string(&self) -> FixedStr { *self }
    pub fn as_str(&self) -> &str { self }
    pub fn from_str(s: &str) -> FixedStr { let mut r = FixedStr { b: [0; MAXS], n: if s.len() < MAXS { s.len() } else { MAXS } }; let sb = s.as_bytes(); if r.n >= 1 { r.b[0] = sb[0]; } if r.n >= 2 { r.b[1] = sb[1]; } r }
}
type String = FixedStr;
#[derive(Clone, Copy, PartialEq, Eq)] pub struct Error(pub u8);

// ------------------------------------------------------------------ std / tokio stand-ins
pub const VN: usize = 3;
#[derive(Clone, Copy)] pub struct Vec<T: Copy + Default> { pub items: [T; VN], pub len: usize }
impl<T: Copy + Default> Vec<T> {
    pub fn is_empty(&self) -> bool { self.len == 0 }
    pub fn len(&self) -> usize { self.len }
    pub fn iter(&self) -> std::slice::Iter<'_, T> { self.items[..self.len].iter() }
}
impl<T: Copy + Default> std::iter::FromIterator<T> for Vec<T> {
    fn from_iter<I: IntoIterator<Item = T>>(it: I) -> Self { let mut v = Vec { items: [T::default(); VN], len: 0 }; for x in it { assert!(v.len < VN); v.items[v.len] = x; v.len += 1; } v }
}
impl<T: Copy + Default> std::ops::Index<usize> for Vec<T> { type Output = T; fn index(&self, i: usize) -> &T { assert!(i < self.len); &self.items[i] } }
impl<T: Copy + Default> std::ops::Index<std::ops::RangeFrom<usize>> for Vec<T> { type Output = [T]; fn index(&self, r: std::ops::RangeFrom<usize>) -> &[T] { &self.items[r.start..self.len] } }

pub const HN: usize = 2;
pub struct HashMap<K: Copy + PartialEq, V: Copy> { pub slots: [Option<(K, V)>; HN] }
impl<K: Copy + PartialEq, V: Copy> Default for HashMap<K, V> { fn default() -> Self { HashMap { slots: [None; HN] } } }
impl<K: Copy + PartialEq, V: Copy> HashMap<K, V> {
    pub fn get(&self, k: &K) -> Option<&V> { let mut i = 0; while i < HN { if let Some((kk, v)) = &self.slots[i] { if kk == k { return Some(v); } } i += 1; } None }
    pub fn contains_key(&self, k: &K) -> bool { self.get(k).is_some() }
    pub fn insert(&mut self, k: K, v: V) -> Option<V> {
        let mut i = 0; while i < HN { if let Some((kk, old)) = self.slots[i] { if kk == k { self.slots[i] = Some((k, v)); return Some(old); } } i += 1; }
        let mut i = 0; while i < HN { if self.slots[i].is_none() { self.slots[i] = Some((k, v)); return None; } i += 1; }
        panic!("stub map capacity")
    }
    pub fn remove(&mut self, k: &K) -> Option<V> { let mut i = 0; while i < HN { if let Some((kk, v)) = self.slots[i] { if kk == *k { self.slots[i] = None; return Some(v); } } i += 1; } None }
}
pub struct Mutex<T>(pub std::cell::UnsafeCell<T>);
impl<T: Default> Default for Mutex<T> { fn default() -> Self { Mutex(std::cell::UnsafeCell::new(T::default())) } }
pub struct MGuard<'a, T>(pub &'a mut T);
impl<'a, T> std::ops::Deref for MGuard<'a, T> { type Target = T; fn deref(&self) -> &T { self.0 } }
impl<'a, T> std::ops::DerefMut for MGuard<'a, T> { fn deref_mut(&mut self) -> &mut T { self.0 } }
impl<T> Mutex<T> { pub fn lock(&self) -> Ready<MGuard<'_, T>> { ready(MGuard(unsafe { &mut *self.0.get() })) } }
/// shared handle: clones point at the same object (the harness owns it for the whole run)
pub struct Arc<T>(pub *const T);
impl<T> Clone for Arc<T> { fn clone(&self) -> Self { Arc(self.0) } }
impl<T> std::ops::Deref for Arc<T> { type Target = T; fn deref(&self) -> &T { unsafe { &*self.0 } } }
impl<T: Default> Default for Arc<T> { fn default() -> Self { panic!("not used by the harness") } }

static mut NOW: u64 = 1000;
#[derive(Clone, Copy)] pub struct Duration(pub u64);
impl Duration { pub fn from_secs(s: u64) -> Duration { Duration(s) } }
pub struct Sleep { deadline: Option<u64>, d: u64 }
impl Future for Sleep { type Output = (); fn poll(mut self: Pin<&mut Self>, _cx: &mut TaskCx<'_>) -> Poll<()> { unsafe {
    if self.deadline.is_none() { let d = self.d; self.deadline = Some(NOW.saturating_add(d)); }
    if NOW >= self.deadline.unwrap() { Poll::Ready(()) } else { Poll::Pending }
} } }
/// a spawned task: the (leaked) future and the monomorphic function that polls it -- no `dyn Future`
#[derive(Clone, Copy)] pub struct Task { fut: *mut (), poll: fn(*mut (), &mut TaskCx<'_>) -> bool }
fn poll_thunk<F: Future<Output = ()>>(p: *mut (), cx: &mut TaskCx<'_>) -> bool { let f = unsafe { Pin::new_unchecked(&mut *(p as *mut F)) }; f.poll(cx).is_ready() }
static mut TASKS: [Option<Task>; 2] = [None, None];
pub mod tokio {
    pub mod time { pub fn sleep(d: crate::Duration) -> crate::Sleep { crate::Sleep { deadline: None, d: d.0 } } }
    pub fn spawn<F: std::future::Future<Output = ()> + 'static>(f: F) { unsafe {
        let t = crate::Task { fut: Box::into_raw(Box::new(f)) as *mut (), poll: crate::poll_thunk::<F> };
        if crate::TASKS[0].is_none() { crate::TASKS[0] = Some(t); } else { assert!(crate::TASKS[1].is_none(), "stub executor capacity"); crate::TASKS[1] = Some(t); }
    } }
}
/// the executor runs every spawned task that can make progress
fn run_tasks() { unsafe {
    let mut cx = TaskCx::from_waker(std::task::Waker::noop());
    let mut i = 0;
    while i < 2 { if let Some(t) = TASKS[i] { if (t.poll)(t.fut, &mut cx) { TASKS[i] = None; } } i += 1; }
} }

// ------------------------------------------------------------------ the command line and the process
/// one word of the configured command line: a literal, or a word made of the #USER# / #PASS# placeholder
#[derive(Clone, Copy, Default, PartialEq, Eq)]
pub struct CmdTok { pub kind: u8, pub has_user: u8, pub has_pass: u8, pub user: FixedStr, pub pass: FixedStr }
const NOSTR: FixedStr = FixedStr { b: [0; MAXS], n: 0 };
impl CmdTok {
    pub fn replace(&self, pat: &str, to: &str) -> CmdTok {
        let mut r = *self;
        let is_user = pat.len() == 6 && pat.as_bytes()[1] == b'U' && pat.as_bytes()[2] == b'S';
        let is_pass = pat.len() == 6 && pat.as_bytes()[1] == b'P' && pat.as_bytes()[2] == b'A';
        if is_user && self.kind == 1 { r.user = FixedStr::from_str(to); r.has_user = 1; }
        if is_pass && self.kind == 2 { r.pass = FixedStr::from_str(to); r.has_pass = 1; }
        r
    }
}
#[derive(Clone, Copy, PartialEq, Eq)] pub struct IoError(pub u8);
// Debug is required by Result::unwrap / trace!; a derived impl would drag core::fmt into the model
macro_rules! trivial_debug { ($($t:ty),*) => { $( impl std::fmt::Debug for $t { fn fmt(&self, _f: &mut std::fmt::Formatter<'_>) -> std::fmt::Result { Ok(()) } } )* } }
trivial_debug!(IoError, Error, FixedStr, CmdTok);
#[derive(Clone, Copy)] pub struct ExitStatus { pub code: Option<i32> }
impl ExitStatus { pub fn success(&self) -> bool { self.code == Some(0) } pub fn code(&self) -> Option<i32> { self.code } }
static mut N_RUN: u32 = 0;
// what the started process saw in place of the placeholders (scalars: Kani 0.68 mis-reads static arrays of structs)
static mut RUN_HAS_USER: bool = false;
static mut RUN_HAS_PASS: bool = false;
static mut RUN_USER: FixedStr = FixedStr { b: [0; MAXS], n: 0 };
static mut RUN_PASS: FixedStr = FixedStr { b: [0; MAXS], n: 0 };
static mut RUN_NARGS: usize = 0;
static mut SPAWN_OK: bool = true;
static mut EXIT: Option<i32> = None;         // exit status of the next process: Some(code), or None = killed by a signal
/// the command being assembled: only what the property needs (which credentials replaced the placeholders)
pub struct Command { nargs: usize, has_user: u8, has_pass: u8, user: FixedStr, pass: FixedStr }
pub struct Child(pub u8);
impl Command {
    pub fn new(p: &CmdTok) -> Command { Command { nargs: 0, has_user: 0, has_pass: 0, user: NOSTR, pass: NOSTR } }
    fn note(&mut self, t: &CmdTok) { if t.kind == 1 { self.has_user = t.has_user; self.user = t.user; } if t.kind == 2 { self.has_pass = t.has_pass; self.pass = t.pass; } }
    pub fn args(&mut self, a: &[CmdTok]) -> &mut Command { let mut i = 0; while i < VN { if i < a.len() { let t = a[i]; self.note(&t); } i += 1; } self.nargs += a.len(); self }
    pub fn arg(&mut self, a: &CmdTok) -> &mut Command { self.note(a); self.nargs += 1; self }
    pub fn spawn(&mut self) -> Result<Child, IoError> { unsafe {
        if !SPAWN_OK { return Err(IoError(1)); }
        N_RUN += 1; RUN_NARGS = self.nargs + 1;
        RUN_HAS_USER = self.has_user == 1; RUN_USER = self.user; RUN_HAS_PASS = self.has_pass == 1; RUN_PASS = self.pass;
        Ok(Child(0))
    } }
}
impl Child { pub fn wait(&mut self) -> Ready<Result<ExitStatus, IoError>> { unsafe { ready(Ok(ExitStatus { code: EXIT })) } } }

include!("cache.in.rs");
pub struct AuthData { pub required: bool, cmd: Vec<CmdTok>, cache: Cache }
include!("auth_cmd.in.rs");

pub fn run_ready<F: Future>(f: F) -> F::Output {
    let mut f = std::pin::pin!(f);
    let mut cx = TaskCx::from_waker(std::task::Waker::noop());
    match f.as_mut().poll(&mut cx) { Poll::Ready(v) => v, Poll::Pending => panic!("stub future pending") }
}

#[cfg(kani)]
fn any_str() -> FixedStr { let b: [u8; MAXS] = kani::any(); kani::assume(b[0] < 128 && b[1] < 128); let n: usize = kani::any(); kani::assume(n <= MAXS); FixedStr { b, n } }

#[cfg(kani)]
#[kani::proof]
#[kani::unwind(5)]
fn auth_cmd_two_attempts() {
    let timeout: u64 = kani::any();
    kani::assume(timeout <= 3);
    let map: Mutex<HashMap<(String, String), bool>> = Default::default();
    let ncmd: usize = kani::any();
    kani::assume(ncmd <= VN);
    // command line: program, a word that is the user placeholder, a word that is the password placeholder
    let a = AuthData { required: true, cmd: Vec { items: [CmdTok { kind: 0, has_user: 0, has_pass: 0, user: NOSTR, pass: NOSTR }, CmdTok { kind: 1, has_user: 0, has_pass: 0, user: NOSTR, pass: NOSTR }, CmdTok { kind: 2, has_user: 0, has_pass: 0, user: NOSTR, pass: NOSTR }], len: ncmd },
                       cache: Cache { timeout, data: Arc(&map) } };
    // ---- first attempt
    let c1 = (any_str(), any_str());
    let t1 = unsafe { NOW };
    unsafe { SPAWN_OK = kani::any(); EXIT = kani::any(); }
    let (ok1, exit1) = unsafe { (SPAWN_OK, EXIT) };
    let r1 = run_ready(a.auth_cmd(&c1));
    run_tasks();
    let ran1 = unsafe { N_RUN } == 1;
    if ncmd == 0 { assert!(!r1 && !ran1); }
    else {
        // nothing is cached yet: the command decides, for exactly the presented credentials, by its exit status
        assert!(ran1 == ok1);
        assert!(r1 == (ok1 && exit1 == Some(0)));
        unsafe { if ran1 { assert!(RUN_NARGS == ncmd); if ncmd >= 2 { assert!((RUN_HAS_USER && RUN_USER == c1.0)); } if ncmd >= 3 { assert!((RUN_HAS_PASS && RUN_PASS == c1.1)); } } }
    }
    // ---- time passes, the executor runs whatever became ready
    let dt: u64 = kani::any();
    kani::assume(dt <= 4);
    unsafe { NOW += dt; }
    run_tasks();
    // ---- second attempt
    let c2 = (any_str(), any_str());
    unsafe { SPAWN_OK = kani::any(); EXIT = kani::any(); }
    let (ok2, exit2) = unsafe { (SPAWN_OK, EXIT) };
    let r2 = run_ready(a.auth_cmd(&c2));
    run_tasks();
    let ran2 = unsafe { N_RUN } == (if ran1 { 2 } else { 1 });
    if ncmd == 0 { assert!(!r2 && !ran2); }
    else {
        let same = c1.0 == c2.0 && c1.1 == c2.1;
        let may_reuse = same && timeout > 0 && dt < timeout;
        if !may_reuse {
            // other credentials, caching disabled, or the verdict has expired: the command is asked again
            assert!(ran2 == ok2);
            assert!(r2 == (ok2 && exit2 == Some(0)));
        } else {
            // identical credentials within the validity period: the earlier verdict, or a fresh one
            assert!(r2 == r1 || (ran2 && r2 == (exit2 == Some(0))));
        }
        if r2 { assert!(may_reuse && r1 || (ran2 && exit2 == Some(0))); }
        unsafe { if ran2 { if ncmd >= 2 { assert!((RUN_HAS_USER && RUN_USER == c2.0)); } if ncmd >= 3 { assert!((RUN_HAS_PASS && RUN_PASS == c2.1)); } } }
        kani::cover!(may_reuse && !ran2 && r2);
        kani::cover!(same && !may_reuse && ran2 && r2 != r1);
    }
}
#[cfg(kani)]
#[kani::proof]
#[kani::unwind(5)]
fn auth_cmd_one_attempt() {
    let timeout: u64 = kani::any();
    kani::assume(timeout <= 3);
    let map: Mutex<HashMap<(String, String), bool>> = Default::default();
    let ncmd: usize = kani::any();
    kani::assume(ncmd <= VN);
    let a = AuthData { required: true, cmd: Vec { items: [CmdTok { kind: 0, has_user: 0, has_pass: 0, user: NOSTR, pass: NOSTR }, CmdTok { kind: 1, has_user: 0, has_pass: 0, user: NOSTR, pass: NOSTR }, CmdTok { kind: 2, has_user: 0, has_pass: 0, user: NOSTR, pass: NOSTR }], len: ncmd },
                       cache: Cache { timeout, data: Arc(&map) } };
    let c1 = (any_str(), any_str());
    unsafe { SPAWN_OK = kani::any(); EXIT = kani::any(); }
    let (ok1, exit1) = unsafe { (SPAWN_OK, EXIT) };
    let r1 = run_ready(a.auth_cmd(&c1));
    let ran1 = unsafe { N_RUN } == 1;
    if ncmd == 0 { assert!(!r1 && !ran1); }
    else {
        // nothing is cached yet: the command decides, for exactly the presented credentials, by its exit status
        // (exit code 0; a process killed by a signal has no exit code and is a refusal)
        assert!(ran1 == ok1);
        assert!(r1 == (ok1 && exit1 == Some(0)));
        unsafe { if ran1 { assert!(RUN_NARGS == ncmd); if ncmd >= 2 { assert!(RUN_HAS_USER && RUN_USER == c1.0); } if ncmd >= 3 { assert!(RUN_HAS_PASS && RUN_PASS == c1.1); } } }
        kani::cover!(r1);
        kani::cover!(ran1 && exit1.is_none() && !r1);
    }
}
fn main() {}
