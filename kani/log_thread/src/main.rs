// Kani stub-environment unit for `log_thread` (src/access_log.rs), properties C18 / C08: an accepted configuration
// (here: an access-log format script that type-checks) never brings the process down when traffic arrives.  The task
// running log_thread is spawned with `unwrap_or_else(|e| panic!(..))`, and the binary aborts on panic, so log_thread may
// return only when the channel is closed or a file operation fails -- never because formatting ONE record failed.
// The function text is extracted from /repo on every run and compiled verbatim (helpers it calls are pulled in
// automatically); the channel, the formatter and the file are stubs with symbolic outcomes and a ghost trace.
#![allow(dead_code, unused_variables, unused_macros, static_mut_refs, unused_imports, unused_mut)]
// `tracing::level!(..)` written with its path by an edit keeps compiling (log statements have no effect on the checks)
pub mod tracing {
    macro_rules! trace { ($($t:tt)*) => { () } }
    macro_rules! debug { ($($t:tt)*) => { () } }
    macro_rules! info { ($($t:tt)*) => { () } }
    macro_rules! warn_ { ($($t:tt)*) => { () } }
    macro_rules! error { ($($t:tt)*) => { () } }
    pub(crate) use {trace, debug, info, warn_ as warn, error};
}
use std::future::{ready, Ready};
macro_rules! warn { ($($t:tt)*) => { () } }
macro_rules! info { ($($t:tt)*) => { () } }
macro_rules! format { ($($t:tt)*) => { Msg } }
#[derive(Clone, Copy)] pub struct Msg;
#[derive(Clone, Copy, Debug, PartialEq, Eq)] pub struct Error { pub code: u8, pub cause: Option<u8> }
pub fn err_msg<T>(_m: T) -> Error { unsafe { CLOSED_REPORTED = true; } Error { code: 1, cause: None } }
#[derive(Clone, Copy, Debug, PartialEq, Eq)] pub struct IoError(pub u8);
pub trait ResultExt<T> { fn context<S>(self, s: S) -> Result<T, Error>; fn with_context<S, F: FnOnce() -> S>(self, f: F) -> Result<T, Error>; }
impl<T> ResultExt<T> for Result<T, IoError> {
    fn context<S>(self, s: S) -> Result<T, Error> { match self { Ok(v) => Ok(v), Err(e) => Err(Error { code: 2, cause: Some(e.0) }) } }
    fn with_context<S, F: FnOnce() -> S>(self, f: F) -> Result<T, Error> { match self { Ok(v) => Ok(v), Err(e) => Err(Error { code: 2, cause: Some(e.0) }) } }
}
impl std::fmt::Display for Error { fn fmt(&self, f: &mut std::fmt::Formatter<'_>) -> std::fmt::Result { Ok(()) } }

pub const NMSG: usize = 3;
static mut MSGS: [u8; NMSG] = [0; NMSG];        // 0 = rotate request, 1 = record that formats, 2 = record whose format fails
static mut N_MSGS: usize = 0;
static mut NEXT: usize = 0;                      // messages handed out
static mut CLOSED_SEEN: bool = false;            // recv() reported the closed channel
static mut CLOSED_REPORTED: bool = false;
static mut IO_FAILED: bool = false;              // some file operation failed
static mut WRITTEN: [u8; NMSG] = [0; NMSG];      // ids of records written, in order
static mut N_WRITTEN: usize = 0;
static mut N_FORMAT: usize = 0;
static mut N_OPEN: usize = 0;
static mut N_SHUT: usize = 0;

#[cfg(kani)] fn nondet_bool() -> bool { kani::any() }
#[cfg(not(kani))] fn nondet_bool() -> bool { false }

#[derive(Clone, Copy)] pub struct ContextProps { pub id: u8, pub bad: bool }
#[derive(Clone, Copy)] pub struct Arc<T>(pub T);
impl<T> std::ops::Deref for Arc<T> { type Target = T; fn deref(&self) -> &T { &self.0 } }
pub struct Receiver<T>(pub std::marker::PhantomData<T>);
impl Receiver<Option<Arc<ContextProps>>> {
    pub fn recv(&mut self) -> Ready<Option<Option<Arc<ContextProps>>>> { unsafe {
        if NEXT >= N_MSGS { CLOSED_SEEN = true; return ready(None); }
        let k = MSGS[NEXT]; let id = NEXT as u8; NEXT += 1;
        if k == 0 { ready(Some(None)) } else { ready(Some(Some(Arc(ContextProps { id, bad: k == 2 })))) }
    } }
}
/// a formatted line: remembers which record it came from
pub struct Line { pub id: u8, pub crlf: bool }
impl std::ops::AddAssign<&str> for Line { fn add_assign(&mut self, s: &str) { if s.len() == 2 { self.crlf = true; } } }
impl Line { pub fn as_bytes(&self) -> LineBytes { LineBytes { id: self.id, crlf: self.crlf } } pub fn push_str(&mut self, s: &str) { if s.len() == 2 { self.crlf = true; } } }
/// helper functions introduced by an edit may name the type of a formatted line
type String = Line;
pub struct LineBytes { pub id: u8, pub crlf: bool }
pub trait Formater: Send + Sync { fn to_string(&self, e: Arc<ContextProps>) -> Result<Line, Error>; }
pub struct Fmt(pub u8);
impl Formater for Fmt {
    /// contract of ScriptFormater::to_string: may fail for a record (dynamic error of the script, e.g. division by zero)
    fn to_string(&self, e: Arc<ContextProps>) -> Result<Line, Error> { unsafe { N_FORMAT += 1; } if e.bad { Err(Error { code: 3, cause: None }) } else { Ok(Line { id: e.id, crlf: false }) } }
}
pub struct File(pub u8);
pub struct PathBuf(pub u8);
pub struct Path(pub u8);
impl std::ops::Deref for PathBuf { type Target = Path; fn deref(&self) -> &Path { unsafe { &THE_PATH } } }
static THE_PATH: Path = Path(0);
pub async fn log_open(path: &Path) -> Result<File, Error> { unsafe { N_OPEN += 1; if nondet_bool() { IO_FAILED = true; Err(Error { code: 4, cause: None }) } else { Ok(File(0)) } } }
pub struct BufWriter<T>(pub T);
impl<T> BufWriter<T> {
    pub fn new(t: T) -> Self { BufWriter(t) }
    pub fn write(&mut self, b: LineBytes) -> Ready<Result<usize, IoError>> { unsafe {
        if nondet_bool() { IO_FAILED = true; return ready(Err(IoError(1))); }
        assert!(b.crlf, "every record ends with CR LF");
        WRITTEN[N_WRITTEN] = b.id; N_WRITTEN += 1;
        ready(Ok(1))
    } }
    pub fn write_all(&mut self, b: LineBytes) -> Ready<Result<(), IoError>> { unsafe {
        if nondet_bool() { IO_FAILED = true; return ready(Err(IoError(1))); }
        assert!(b.crlf, "every record ends with CR LF");
        WRITTEN[N_WRITTEN] = b.id; N_WRITTEN += 1;
        ready(Ok(()))
    } }
    pub fn flush(&mut self) -> Ready<Result<(), IoError>> { unsafe { if nondet_bool() { IO_FAILED = true; return ready(Err(IoError(2))); } ready(Ok(())) } }
    pub fn shutdown(&mut self) -> Ready<Result<(), IoError>> { unsafe { N_SHUT += 1; if nondet_bool() { IO_FAILED = true; return ready(Err(IoError(3))); } ready(Ok(())) } }
}

include!("log_thread.in.rs");
/// every stub future is immediately ready, so the whole task completes within one poll
pub fn run_ready<F: std::future::Future>(f: F) -> F::Output {
    let mut f = std::pin::pin!(f);
    let mut cx = std::task::Context::from_waker(std::task::Waker::noop());
    match f.as_mut().poll(&mut cx) { std::task::Poll::Ready(v) => v, std::task::Poll::Pending => panic!("stub future pending") }
}

#[cfg(kani)]
#[kani::proof]
#[kani::unwind(6)]
fn log_thread_survives_format_errors() {
    unsafe {
        MSGS = kani::any(); N_MSGS = kani::any();
        kani::assume(N_MSGS <= NMSG);
        let mut i = 0; while i < NMSG { kani::assume(MSGS[i] <= 2); i += 1; }
    }
    let r = run_ready(log_thread(Box::new(Fmt(0)), Receiver(std::marker::PhantomData), PathBuf(0)));
    unsafe {
        // the loop never ends normally, and ends with an error ONLY because the channel is closed or the file failed
        assert!(r.is_err());
        assert!(IO_FAILED || CLOSED_SEEN);
        if !IO_FAILED {
            // every message was consumed; every record that formats was written exactly once, in order; the others skipped
            assert!(NEXT == N_MSGS);
            let mut expect = 0usize; let mut i = 0;
            while i < NMSG { if i < N_MSGS && MSGS[i] == 1 { assert!(expect < N_WRITTEN && WRITTEN[expect] == i as u8); expect += 1; } i += 1; }
            assert!(N_WRITTEN == expect);
        }
        kani::cover!(!IO_FAILED && N_MSGS == 3 && MSGS[0] == 2 && MSGS[1] == 1 && MSGS[2] == 0);
    }
}
fn main() {}
