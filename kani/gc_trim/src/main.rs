// Kani block unit for the collector loop of `ContextGlobalState::gc_thread` (src/context.rs), property C18: "a
// configuration that is accepted never makes the proxy crash or LOOP FOREVER when traffic later arrives" -- the history
// is trimmed to metrics.historySize (any value, 0 included) while two mutexes every new connection needs are held.
// The statements from `let mut terminated = ..lock()` to the end of the trimming loop are extracted from /repo on every
// run and compiled verbatim; the history deque, the live map and the locks are small stubs.
#![allow(dead_code, unused_variables, unused_macros, static_mut_refs, unused_imports, unused_mut)]
pub mod tracing {
    macro_rules! trace { ($($t:tt)*) => { () } }
    macro_rules! debug { ($($t:tt)*) => { () } }
    macro_rules! info { ($($t:tt)*) => { () } }
    macro_rules! warn_ { ($($t:tt)*) => { () } }
    macro_rules! error { ($($t:tt)*) => { () } }
    pub(crate) use {trace, debug, info, warn_ as warn, error};
}
macro_rules! trace { ($($t:tt)*) => { () } }
use std::future::{ready, Ready};

pub const CAP: usize = 6;
#[derive(Clone, Copy, PartialEq, Eq)] pub struct Props { pub id: u64 }
static mut POPS_ON_EMPTY: u32 = 0;
/// VecDeque<Props> (newest first)
pub struct History { pub items: [u64; CAP], pub len: usize }
impl History {
    pub fn len(&self) -> usize { self.len }
    pub fn is_empty(&self) -> bool { self.len == 0 }
    pub fn push_front(&mut self, p: Props) { assert!(self.len < CAP, "stub capacity"); let mut i = CAP - 1; while i > 0 { self.items[i] = self.items[i - 1]; i -= 1; } self.items[0] = p.id; self.len += 1; }
    /// a trimming loop that still pops when nothing is left can never end
    pub fn pop_back(&mut self) -> Option<Props> { if self.len == 0 { unsafe { POPS_ON_EMPTY += 1; assert!(POPS_ON_EMPTY <= 1, "the trimming loop keeps popping from an empty history: it cannot end"); } return None; } self.len -= 1; Some(Props { id: self.items[self.len] }) }
    pub fn truncate(&mut self, n: usize) { if n < self.len { self.len = n; } }
}
/// the live map: ids 1 and 2 are live before the batch is collected
pub struct Alive { pub present: [bool; 3] }
impl Alive { pub fn remove(&mut self, id: &u64) -> Option<u8> { let i = *id as usize; if i < 3 && self.present[i] { self.present[i] = false; Some(0) } else { None } } }
pub struct Lock<T>(pub std::cell::UnsafeCell<T>);
pub struct G<'a, T>(pub &'a mut T);
impl<'a, T> std::ops::Deref for G<'a, T> { type Target = T; fn deref(&self) -> &T { self.0 } }
impl<'a, T> std::ops::DerefMut for G<'a, T> { fn deref_mut(&mut self) -> &mut T { self.0 } }
impl<T> Lock<T> { pub fn lock(&self) -> Ready<G<'_, T>> { ready(G(unsafe { &mut *self.0.get() })) } }
pub struct Batch { pub items: [Props; 2], pub n: usize }
pub struct BatchIter { b: Batch, pos: usize }
impl Iterator for BatchIter { type Item = Props; fn next(&mut self) -> Option<Props> { if self.pos < self.b.n { let p = self.b.items[self.pos]; self.pos += 1; Some(p) } else { None } } }
impl IntoIterator for Batch { type Item = Props; type IntoIter = BatchIter; fn into_iter(self) -> BatchIter { BatchIter { b: self, pos: 0 } } }
pub struct State { pub terminated: Lock<History>, pub alive: Lock<Alive>, pub history_size: usize }

async fn collect_inner(self_: &State, list: Batch) {
    include!("gc_trim.in.rs");
}

pub fn run_ready<F: std::future::Future>(f: F) -> F::Output {
    let mut f = std::pin::pin!(f);
    let mut cx = std::task::Context::from_waker(std::task::Waker::noop());
    match f.as_mut().poll(&mut cx) { std::task::Poll::Ready(v) => v, std::task::Poll::Pending => panic!("stub future pending") }
}

#[cfg(kani)]
#[kani::proof]
#[kani::unwind(8)]
fn history_trimming_ends() {
    let old_len: usize = kani::any(); kani::assume(old_len <= 3);
    let n: usize = kani::any(); kani::assume(1 <= n && n <= 2);
    let history_size: usize = kani::any(); kani::assume(history_size <= 4);
    let st = State { terminated: Lock(std::cell::UnsafeCell::new(History { items: [9; CAP], len: old_len })), alive: Lock(std::cell::UnsafeCell::new(Alive { present: [false, true, true] })), history_size };
    kani::assume(old_len <= history_size);      // the history respected the limit before this batch
    run_ready(collect_inner(&st, Batch { items: [Props { id: 1 }, Props { id: 2 }], n }));
    let h = unsafe { &*st.terminated.0.get() };
    unsafe { assert!(POPS_ON_EMPTY <= 1); }
    // bounded, newest first
    assert!(h.len <= history_size);
    if history_size >= 1 { assert!(h.len >= 1 && h.items[0] == n as u64); }
    kani::cover!(history_size == 0);
    kani::cover!(h.len == 4);
}
fn main() {}
