// Kani stub-environment unit for `SocksConnector::connect` (src/connectors/socks.rs): the SOCKS connector handshake.
// C06: the connector reports success (and installs the upstream stream / frames) only if the upstream answered
//      SOCKS_REPLY_OK, and a non-OK reply is an error with nothing installed;
// C03: the SOCKS request carries exactly the destination of this connection, the configured version and credentials, and
//      the command that belongs to the feature; the UDP relay address is the one the upstream announced (0.0.0.0 -> server);
// C01: the buffered stream handed to the context is THE wrapper the reply was read through (its read-ahead -- data the
//      upstream sent right behind its reply -- stays with the tunnel), and the upstream is wrapped exactly once;
// C05: no reply can panic the connector.
// Function text extracted from /repo every run (one stated rewrite: `self: Arc<Self>` -> `self: &Self`), loop-free;
// every stub outcome symbolic.  The constants below restate src/common/socks/mod.rs (RFC 1928 values).
#![allow(dead_code, unused_variables, unused_macros, static_mut_refs, unused_imports, unused_mut)]

macro_rules! bail { ($($t:tt)*) => { return Err(Error { cause: 9 }) } }
macro_rules! trace { ($($t:tt)*) => { () } }
macro_rules! format { ($($t:tt)*) => { Msg(0) } }

pub const SOCKS_CMD_CONNECT: u8 = 1u8;
pub const SOCKS_CMD_UDP_ASSOCIATE: u8 = 3u8;
pub const SOCKS_REPLY_OK: u8 = 0u8;

#[derive(Clone, Copy)] pub struct Msg(pub u8);
#[derive(Clone, Copy)] pub struct Error { pub cause: u8 }
impl std::fmt::Debug for Error { fn fmt(&self, _f: &mut std::fmt::Formatter<'_>) -> std::fmt::Result { Ok(()) } }
pub fn err_msg<M>(_m: M) -> Error { Error { cause: 8 } }
pub trait ResultExt<T> { fn context(self, m: &str) -> Result<T, Error>; fn with_context<F: FnOnce() -> Msg>(self, f: F) -> Result<T, Error>; }
impl<T, E> ResultExt<T> for Result<T, E> {
    fn context(self, m: &str) -> Result<T, Error> { match self { Ok(v) => Ok(v), Err(_) => Err(Error { cause: 1 }) } }
    fn with_context<F: FnOnce() -> Msg>(self, f: F) -> Result<T, Error> { match self { Ok(v) => Ok(v), Err(_) => Err(Error { cause: 1 }) } }
}

// ---------------------------------------------------------------- ghost trace
static mut T: u32 = 0;
fn tick() -> u32 { unsafe { T += 1; T } }
static mut TARGET: u8 = 0;
static mut FEATURE: Feature = Feature::TcpForward;
static mut TCP_OK: bool = true;
static mut TLS_OK: bool = true;
static mut NAME_OK: bool = true;
static mut WRITE_OK: bool = true;
static mut RESP_OK: bool = true;
static mut RESP_CMD: u8 = 0;
static mut RESP_ADDR_PRESENT: bool = true;
static mut RESP_ADDR: SocketAddr = SocketAddr { ip: IpAddr(0), port: 0 };
static mut UDP_OK: bool = true;
static mut N_WRAPS: u32 = 0;
static mut REQ_VERSION: u8 = 0;
static mut REQ_CMD: u8 = 255;
static mut REQ_TARGET: u8 = 255;
static mut REQ_AUTH: Option<(u8, u8)> = None;
static mut REQ_WRAP: u32 = 0;
static mut T_REQ_WRITTEN: u32 = 0;
static mut T_RESP_READ: u32 = 0;
static mut RESP_WRAP: u32 = 0;
static mut N_SET_STREAM: u32 = 0;
static mut SET_STREAM_WRAP: u32 = 0;
static mut N_SET_FRAMES: u32 = 0;
static mut UDP_LOCAL: SocketAddr = SocketAddr { ip: IpAddr(0), port: 0 };
static mut UDP_REMOTE: Option<SocketAddr> = None;
static mut N_RAW_IO: u32 = 0;

#[derive(Clone, Copy, PartialEq, Eq)] pub enum Feature { TcpForward, UdpForward, UdpBind, TcpBind }
impl std::fmt::Debug for Feature { fn fmt(&self, _f: &mut std::fmt::Formatter<'_>) -> std::fmt::Result { Ok(()) } }
#[derive(Clone, Copy, PartialEq, Eq)] pub struct TargetAddress(pub u8);
impl TargetAddress {
    pub fn as_socket_addr(&self) -> Option<SocketAddr> { unsafe { if RESP_ADDR_PRESENT { Some(RESP_ADDR) } else { None } } }
}
/// ip 0 = unspecified (0.0.0.0 / ::)
#[derive(Clone, Copy, PartialEq, Eq)] pub struct IpAddr(pub u8);
impl IpAddr { pub fn is_unspecified(&self) -> bool { self.0 == 0 } }
#[derive(Clone, Copy, PartialEq, Eq)] pub struct SocketAddr { ip: IpAddr, port: u16 }
impl SocketAddr {
    pub fn new(ip: IpAddr, port: u16) -> Self { SocketAddr { ip, port } }
    pub fn ip(&self) -> IpAddr { self.ip }
    pub fn port(&self) -> u16 { self.port }
}
pub fn into_unspecified(a: SocketAddr) -> SocketAddr { SocketAddr { ip: IpAddr(0), port: 0 } }
#[derive(Clone, Copy)] pub struct IoError(pub u8);

/// configuration strings as tokens
#[derive(Clone, Copy, PartialEq, Eq)] pub struct Str(pub u8);
impl Str { pub fn as_str(&self) -> &str { "s" } pub fn to_owned(&self) -> Str { *self } }
impl std::fmt::Display for Str { fn fmt(&self, _f: &mut std::fmt::Formatter<'_>) -> std::fmt::Result { Ok(()) } }

pub struct TcpStream(pub u8);
impl TcpStream {
    pub async fn connect<A>(_a: A) -> Result<TcpStream, IoError> { unsafe { if TCP_OK { Ok(TcpStream(1)) } else { Err(IoError(1)) } } }
    pub fn local_addr(&self) -> Result<SocketAddr, IoError> { Ok(SocketAddr { ip: IpAddr(7), port: 1000 }) }
    pub fn peer_addr(&self) -> Result<SocketAddr, IoError> { Ok(SocketAddr { ip: IpAddr(9), port: 1080 }) }
}
pub fn set_keepalive(_s: &TcpStream) -> Result<(), Error> { Ok(()) }
pub struct TlsStream(pub u8);
pub struct ServerName(pub u8);
pub struct InvalidDnsNameError;
impl<'a> TryFrom<&'a str> for ServerName {
    type Error = InvalidDnsNameError;
    fn try_from(s: &'a str) -> Result<Self, InvalidDnsNameError> { unsafe { if NAME_OK || s.len() != 1 { Ok(ServerName(0)) } else { Err(InvalidDnsNameError) } } }
}
pub struct TlsConnector(pub u8);
impl TlsConnector {
    pub async fn connect(&self, _d: ServerName, _s: TcpStream) -> Result<TlsStream, IoError> { unsafe { if TLS_OK { Ok(TlsStream(1)) } else { Err(IoError(2)) } } }
}
#[derive(Clone, Copy)] pub struct TlsClientConfig { pub insecure: bool }
impl TlsClientConfig { pub fn connector(&self) -> TlsConnector { TlsConnector(0) } }

/// a buffered stream; `wrap` is the identity of the BufReader/BufWriter pair (its buffers live and die with it).
/// into_inner / raw byte access exist so that an edit which unwraps or moves bytes itself is decided, not rejected.
pub struct IOBufStream { pub wrap: u32 }
pub struct Inner(pub u8);
/// BufReader<BufWriter<S>>: two layers can be peeled off
impl Inner { pub fn into_inner(self) -> Inner { self } pub fn get_mut(&mut self) -> &mut Self { self } }
pub trait Raw {}
impl Raw for TcpStream {}
impl Raw for TlsStream {}
impl Raw for Inner {}
pub fn make_buffered_stream<S: Raw>(_s: S) -> IOBufStream { unsafe { N_WRAPS += 1; IOBufStream { wrap: N_WRAPS } } }
impl IOBufStream {
    pub fn into_inner(self) -> Inner { Inner(0) }
    pub fn get_mut(&mut self) -> &mut Self { self }
    pub fn buffer(&self) -> &[u8] { &[] }
    pub fn write_all(&mut self, b: &[u8]) -> std::future::Ready<Result<(), IoError>> { unsafe { N_RAW_IO += 1; } std::future::ready(Ok(())) }
    pub fn read(&mut self, b: &mut [u8]) -> std::future::Ready<Result<usize, IoError>> { unsafe { N_RAW_IO += 1; } std::future::ready(Ok(0)) }
    pub fn flush(&mut self) -> std::future::Ready<Result<(), IoError>> { std::future::ready(Ok(())) }
}

pub struct PasswordAuth { pub required: bool }
impl PasswordAuth { pub fn optional() -> Self { PasswordAuth { required: false } } pub fn required() -> Self { PasswordAuth { required: true } } }
pub struct SocksRequest<T> { pub version: u8, pub cmd: u8, pub target: TargetAddress, pub auth: Option<T> }
impl SocksRequest<(Str, Str)> {
    pub async fn write_to(&self, s: &mut IOBufStream, _a: PasswordAuth) -> Result<(), Error> {
        unsafe {
            if !WRITE_OK { return Err(Error { cause: 2 }); }
            REQ_VERSION = self.version; REQ_CMD = self.cmd; REQ_TARGET = self.target.0;
            REQ_AUTH = match self.auth { Some((u, p)) => Some((u.0, p.0)), None => None };
            REQ_WRAP = s.wrap; T_REQ_WRITTEN = tick();
            Ok(())
        }
    }
}
pub struct SocksResponse { pub version: u8, pub cmd: u8, pub target: TargetAddress }
impl SocksResponse {
    pub async fn read_from(s: &mut IOBufStream) -> Result<SocksResponse, Error> {
        unsafe {
            T_RESP_READ = tick(); RESP_WRAP = s.wrap;
            if RESP_OK { Ok(SocksResponse { version: 5, cmd: RESP_CMD, target: TargetAddress(0) }) } else { Err(Error { cause: 3 }) }
        }
    }
}
pub struct FrameIO(pub u8);
pub async fn setup_udp_session(local: SocketAddr, remote: Option<SocketAddr>) -> Result<(SocketAddr, FrameIO), IoError> {
    unsafe { UDP_LOCAL = local; UDP_REMOTE = remote; if UDP_OK { Ok((local, FrameIO(0))) } else { Err(IoError(4)) } }
}

pub struct Context(pub u8);
impl Context {
    pub fn target(&self) -> TargetAddress { unsafe { TargetAddress(TARGET) } }
    pub fn feature(&self) -> Feature { unsafe { FEATURE } }
    pub fn set_server_stream(&mut self, s: IOBufStream) -> &mut Self { unsafe { N_SET_STREAM += 1; SET_STREAM_WRAP = s.wrap; } self }
    pub fn set_server_frames(&mut self, f: FrameIO) -> &mut Self { unsafe { N_SET_FRAMES += 1; } self }
    pub fn set_local_addr(&mut self, _a: SocketAddr) -> &mut Self { self }
    pub fn set_server_addr(&mut self, _a: SocketAddr) -> &mut Self { self }
}
static mut CTX: Context = Context(0);
pub struct Guard(pub u8);
impl std::ops::Deref for Guard { type Target = Context; fn deref(&self) -> &Context { unsafe { &CTX } } }
impl std::ops::DerefMut for Guard { fn deref_mut(&mut self) -> &mut Context { unsafe { &mut CTX } } }
#[derive(Clone, Copy)] pub struct ContextRef(pub u8);
impl ContextRef { pub async fn read(&self) -> Guard { Guard(0) } pub async fn write(&self) -> Guard { Guard(0) } }
pub struct GlobalState(pub u8);
pub struct Arc<T>(pub T);

#[derive(Clone, Copy)] pub struct SocksAuthData { username: Str, password: Str }
pub struct SocksConnector { name: Str, server: Str, port: u16, version: u8, auth: Option<SocksAuthData>, tls: Option<TlsClientConfig> }

include!("connect.in.rs");

#[cfg(kani)]
#[kani::proof]
#[kani::unwind(4)]
fn socks_connect_all_paths() {
    let version: u8 = if kani::any() { 4 } else { 5 };      // SocksConnector::init rejects anything else
    let has_auth: bool = kani::any();
    let has_tls: bool = kani::any();
    let (u, p): (u8, u8) = (kani::any(), kani::any());
    let c = SocksConnector {
        name: Str(0), server: Str(1), port: kani::any(), version,
        auth: if has_auth { Some(SocksAuthData { username: Str(u), password: Str(p) }) } else { None },
        tls: if has_tls { Some(TlsClientConfig { insecure: kani::any() }) } else { None },
    };
    unsafe {
        TARGET = kani::any();
        kani::assume(TARGET < 100);
        let f: u8 = kani::any();
        FEATURE = match f % 4 { 0 => Feature::TcpForward, 1 => Feature::UdpForward, 2 => Feature::UdpBind, _ => Feature::TcpBind };
        TCP_OK = kani::any(); TLS_OK = kani::any(); NAME_OK = kani::any(); WRITE_OK = kani::any(); RESP_OK = kani::any();
        RESP_CMD = kani::any(); RESP_ADDR_PRESENT = kani::any(); UDP_OK = kani::any();
        RESP_ADDR = SocketAddr { ip: IpAddr(kani::any()), port: kani::any() };
    }
    let ret = run_ready(c.connect(Arc(GlobalState(0)), ContextRef(0)));
    unsafe {
        let udp = FEATURE == Feature::UdpForward || FEATURE == Feature::UdpBind;
        let tcp = FEATURE == Feature::TcpForward;
        // C01: one buffered wrapper per upstream connection, never a second one
        assert!(N_WRAPS <= 1, "the upstream stream was wrapped more than once");
        assert!(N_RAW_IO == 0, "the connector moved raw bytes itself");
        if N_SET_STREAM != 0 {
            // C06: the stream is installed only after an OK reply to a request that was written before it
            assert!(N_SET_STREAM == 1);
            assert!(TCP_OK && WRITE_OK && RESP_OK && RESP_CMD == SOCKS_REPLY_OK && (tcp || udp));
            assert!(T_REQ_WRITTEN != 0 && T_REQ_WRITTEN < T_RESP_READ);
            // C01: the installed stream is the wrapper the request went out on and the reply was read through
            assert!(SET_STREAM_WRAP == RESP_WRAP && RESP_WRAP == REQ_WRAP && REQ_WRAP != 0);
            // C03: the next hop is asked for exactly this connection's destination, with the configured version / credentials
            assert!(REQ_TARGET == TARGET && REQ_VERSION == version);
            assert!(REQ_CMD == if tcp { SOCKS_CMD_CONNECT } else { SOCKS_CMD_UDP_ASSOCIATE });
            assert!(REQ_AUTH == if has_auth { Some((u, p)) } else { None });
        }
        if ret.is_ok() {
            assert!(N_SET_STREAM == 1);
            assert!((tcp && N_SET_FRAMES == 0) || (udp && N_SET_FRAMES == 1 && UDP_OK));
            if udp {
                // C03/C10: datagrams go to the relay the upstream announced; an unspecified address means "the server itself"
                assert!(RESP_ADDR_PRESENT);
                let r = UDP_REMOTE.unwrap();
                assert!(r.port == RESP_ADDR.port);
                assert!(r.ip == if RESP_ADDR.ip.0 == 0 { IpAddr(9) } else { RESP_ADDR.ip });
            }
        } else {
            assert!(N_SET_FRAMES == 0);
        }
        // C06: a refusal (or no reply) of the upstream is never reported as established
        if !TCP_OK || !WRITE_OK || !RESP_OK || RESP_CMD != SOCKS_REPLY_OK || !(tcp || udp) { assert!(ret.is_err() && N_SET_STREAM == 0); }
        if has_tls && TCP_OK && !TLS_OK { assert!(ret.is_err()); }
        kani::cover!(ret.is_ok() && tcp && has_tls && has_auth);
        kani::cover!(ret.is_ok() && tcp && !has_tls && version == 4);
        kani::cover!(ret.is_ok() && udp && RESP_ADDR.ip.0 == 0);
        kani::cover!(ret.is_ok() && udp && RESP_ADDR.ip.0 != 0);
        kani::cover!(ret.is_err() && N_SET_STREAM == 1);
        kani::cover!(ret.is_err() && RESP_OK && WRITE_OK && TCP_OK && RESP_CMD != 0);
    }
}

/// every stub future is immediately ready, so the task completes within one poll (cheaper than kani::block_on's loop)
pub fn run_ready<F: std::future::Future>(f: F) -> F::Output {
    let mut f = std::pin::pin!(f);
    let mut cx = std::task::Context::from_waker(std::task::Waker::noop());
    match f.as_mut().poll(&mut cx) { std::task::Poll::Ready(v) => v, std::task::Poll::Pending => panic!("stub future pending") }
}
fn main() {}
