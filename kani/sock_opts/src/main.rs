// Kani stub-environment unit for `set_keepalive` (src/common/mod.rs), called on every accepted and every upstream TCP
// socket before it is relayed.  C04 ("end-of-stream and abort are relayed faithfully"): how a finished tunnel's sockets
// are closed -- FIN after the queued data, not RST -- depends on the socket options in force, so the contract of this
// function is a FRAME condition: it turns SO_KEEPALIVE on for the socket it was given and changes no other option
// (SO_LINGER in particular: linger 0 turns every close into an abort and discards unsent data).
// Function text extracted from /repo every run; setsockopt / the TcpStream option setters are ghost-logged stubs.
#![allow(dead_code, unused_variables, unused_macros, static_mut_refs, unused_imports, unused_mut)]

static mut KEEPALIVE: Option<bool> = None;
static mut KEEPALIVE_FD: i32 = -1;
static mut N_OTHER_OPTS: u32 = 0;
static mut SYSCALL_OK: bool = true;
const FD: i32 = 7;

pub mod easy_error {
    #[derive(Clone, Copy)] pub struct Error { pub cause: u8 }
    impl std::fmt::Debug for Error { fn fmt(&self, _f: &mut std::fmt::Formatter<'_>) -> std::fmt::Result { Ok(()) } }
    pub trait ResultExt<T> { fn context(self, m: &str) -> Result<T, Error>; }
    impl<T, E> ResultExt<T> for Result<T, E> {
        fn context(self, m: &str) -> Result<T, Error> { match self { Ok(v) => Ok(v), Err(_) => Err(Error { cause: 1 }) } }
    }
    pub fn err_msg<M>(_m: M) -> Error { Error { cause: 8 } }
}
pub struct IoError(pub u8);
pub mod nix { pub mod sys { pub mod socket {
    pub struct Errno(pub i32);
    /// option identity: 1 = SO_KEEPALIVE, anything else = another option
    pub trait SetSockOpt { type Val; const ID: u8; fn as_bool(v: &Self::Val) -> bool; }
    pub mod sockopt {
        use super::SetSockOpt;
        pub struct KeepAlive;  impl SetSockOpt for KeepAlive  { type Val = bool; const ID: u8 = 1; fn as_bool(v: &bool) -> bool { *v } }
        pub struct ReuseAddr;  impl SetSockOpt for ReuseAddr  { type Val = bool; const ID: u8 = 2; fn as_bool(v: &bool) -> bool { *v } }
        pub struct TcpNoDelay; impl SetSockOpt for TcpNoDelay { type Val = bool; const ID: u8 = 3; fn as_bool(v: &bool) -> bool { *v } }
        pub struct Linger;     impl SetSockOpt for Linger     { type Val = super::LingerVal; const ID: u8 = 4; fn as_bool(v: &super::LingerVal) -> bool { v.l_onoff != 0 } }
    }
    #[derive(Clone, Copy)] pub struct LingerVal { pub l_onoff: i32, pub l_linger: i32 }
    pub fn setsockopt<O: SetSockOpt>(fd: i32, _opt: O, val: &O::Val) -> Result<(), Errno> {
        unsafe {
            if !crate::SYSCALL_OK { return Err(Errno(1)); }
            if O::ID == 1 { crate::KEEPALIVE = Some(O::as_bool(val)); crate::KEEPALIVE_FD = fd; } else { crate::N_OTHER_OPTS += 1; }
            Ok(())
        }
    }
} } }
pub mod tokio { pub mod net {
    pub struct TcpStream(pub i32);
    impl std::os::unix::prelude::AsRawFd for TcpStream { fn as_raw_fd(&self) -> i32 { self.0 } }
    /// the option setters tokio's TcpStream offers; each one is "another option" for the frame condition
    impl TcpStream {
        pub fn set_linger(&self, _d: Option<std::time::Duration>) -> Result<(), crate::IoError> { unsafe { crate::N_OTHER_OPTS += 1; } Ok(()) }
        pub fn set_nodelay(&self, _b: bool) -> Result<(), crate::IoError> { unsafe { crate::N_OTHER_OPTS += 1; } Ok(()) }
        pub fn set_ttl(&self, _t: u32) -> Result<(), crate::IoError> { unsafe { crate::N_OTHER_OPTS += 1; } Ok(()) }
    }
} }

include!("set_keepalive.in.rs");

#[cfg(kani)]
#[kani::proof]
#[kani::unwind(2)]
fn set_keepalive_frame() {
    unsafe { SYSCALL_OK = kani::any(); }
    let s = tokio::net::TcpStream(FD);
    let ret = set_keepalive(&s);
    unsafe {
        // frame: no option other than SO_KEEPALIVE is touched, on any path
        assert!(N_OTHER_OPTS == 0, "set_keepalive changed a socket option other than SO_KEEPALIVE");
        if ret.is_ok() { assert!(SYSCALL_OK && KEEPALIVE == Some(true) && KEEPALIVE_FD == FD); }
        if !SYSCALL_OK { assert!(ret.is_err()); }
        kani::cover!(ret.is_ok());
        kani::cover!(ret.is_err());
    }
}
fn main() {}
