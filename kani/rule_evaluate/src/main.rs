// Kani stub-environment unit for `Rule::evaluate` (src/rules/mod.rs), property C02: "a rule without a filter matches
// everything and a filter that fails to evaluate counts as not matching".  Second decider next to Verus unit `rules`
// (Kani compiles the real std combinators, so refactorings Verus cannot parse are still decided).  Loop-free.
#![allow(dead_code, unused_variables, unused_macros, static_mut_refs, unused_imports, unused_mut)]
// `tracing::level!(..)` written with its path by an edit keeps compiling (log statements have no effect on the checks)
pub mod tracing {
    macro_rules! trace { ($($t:tt)*) => { () } }
    macro_rules! debug { ($($t:tt)*) => { () } }
    macro_rules! info { ($($t:tt)*) => { () } }
    macro_rules! warn_ { ($($t:tt)*) => { () } }
    macro_rules! error { ($($t:tt)*) => { () } }
    pub(crate) use {trace, debug, info, warn_ as warn, error};
}
macro_rules! trace { ($($t:tt)*) => { () } }
use std::sync::atomic::{AtomicU64, Ordering};

#[derive(Clone, Copy, Debug)] pub struct Error(pub u8);
pub struct Context(pub u8);
pub struct Instant(pub u8);
pub struct Elapsed(pub u8);
impl Instant { pub fn now() -> Instant { Instant(0) } pub fn elapsed(&self) -> Elapsed { Elapsed(0) } }
impl Elapsed { pub fn as_nanos(&self) -> u128 { 7 } }

static mut OUTCOME: u8 = 0; // 0 = Ok(false), 1 = Ok(true), 2 = Err
static mut N_EVAL: u32 = 0;
pub mod filter {
    use super::*;
    #[derive(Debug)]
    pub struct Filter(pub u8);
    impl Filter {
        /// contract of Filter::evaluate: a fixed Ok(bool) / Err per (filter, request)
        pub fn evaluate(&self, _r: &Context) -> Result<bool, Error> {
            unsafe { N_EVAL += 1; match OUTCOME { 0 => Ok(false), 1 => Ok(true), _ => Err(Error(1)) } }
        }
    }
}
pub struct ArcConnector(pub u8);
#[derive(Default)]
pub struct RuleStatistics { exec: AtomicU64, time: AtomicU64, hits: AtomicU64 }
pub struct Rule {
    target_name: u8,
    pub target: Option<ArcConnector>,
    filter_str: Option<u8>,
    filter: Option<filter::Filter>,
    stats: RuleStatistics,
}

include!("evaluate.in.rs");

#[cfg(kani)]
#[kani::proof]
fn rule_evaluate_all_cases() {
    let has_filter: bool = kani::any();
    unsafe { OUTCOME = kani::any(); kani::assume(OUTCOME <= 2); }
    let r = Rule { target_name: 0, target: None, filter_str: None, filter: if has_filter { Some(filter::Filter(0)) } else { None }, stats: Default::default() };
    let ret = r.evaluate(&Context(0));
    unsafe {
        let expect = if !has_filter { true } else { OUTCOME == 1 };
        assert!(ret == expect);
        if has_filter { assert!(N_EVAL == 1); } else { assert!(N_EVAL == 0); }
        kani::cover!(has_filter && OUTCOME == 2 && !ret);
        kani::cover!(!has_filter && ret);
    }
}
fn main() {}
