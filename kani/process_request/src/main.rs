// Kani stub-environment unit for `process_request` (src/main.rs of redproxy-rs).
// The function text is extracted from /repo on every run into process_request.in.rs and compiled verbatim
// (async/.await, find_map closure and all).  Everything it calls is a heap-free stub that plays the callee's
// contract and records a ghost event trace.  Bounded by the rule-list length (MAX_RULES), complete over every
// other choice (filter results, deny positions, duplicates, feature sets, connect / relay outcomes).
#![allow(dead_code, unused_variables, unused_macros, static_mut_refs, unused_imports)]
// `tracing::level!(..)` written with its path by an edit keeps compiling (log statements have no effect on the checks)
pub mod tracing {
    macro_rules! trace { ($($t:tt)*) => { () } }
    macro_rules! debug { ($($t:tt)*) => { () } }
    macro_rules! info { ($($t:tt)*) => { () } }
    macro_rules! warn_ { ($($t:tt)*) => { () } }
    macro_rules! error { ($($t:tt)*) => { () } }
    pub(crate) use {trace, debug, info, warn_ as warn, error};
}

macro_rules! info { ($($t:tt)*) => { () } }
macro_rules! warn { ($($t:tt)*) => { () } }
macro_rules! format { ($($t:tt)*) => { Msg } }

pub const MAX_RULES: usize = 4;
pub const N_CONN: usize = 2;

// ---------------------------------------------------------------- ghost event trace
static mut TICK: u32 = 0;
static mut N_CONNECT: u32 = 0;
static mut T_CONNECT: u32 = 0;
static mut CONNECT_ID: usize = 255;
static mut N_ON_CONNECT: u32 = 0;
static mut T_ON_CONNECT: u32 = 0;
static mut N_ON_ERROR: u32 = 0;
static mut T_ON_ERROR: u32 = 0;
static mut N_ON_FINISH: u32 = 0;
static mut N_COPY: u32 = 0;
static mut T_COPY: u32 = 0;
static mut N_EVAL: u32 = 0;
static mut N_RULES_GUARD: u32 = 0;
static mut RECORDED: usize = 255;
static mut N_SET_CONNECTOR: u32 = 0;
static mut LAST_STATE: u8 = 0;
// environment (fixed before the call)
static mut FEATURE_OK: [bool; N_CONN] = [false; N_CONN];
static mut CONNECT_OK: bool = false;
static mut COPY_OK: bool = false;

fn tick() -> u32 { unsafe { TICK += 1; TICK } }

// ---------------------------------------------------------------- stubs = callee contracts
#[derive(Clone, Copy)]
pub struct Msg;
#[derive(Clone, Copy, Debug)]
pub struct Error { pub cause: () }
pub fn err_msg<T>(_m: T) -> Error { Error { cause: () } }

#[derive(Clone, Copy, PartialEq, Eq, Debug)]
pub enum Feature { TcpForward, UdpForward }
#[derive(Clone, Copy, PartialEq, Eq)]
pub enum ContextState { ServerConnecting, Terminated }

/// `Arc<T>` as a borrowed wrapper (no heap)
pub struct Arc<T>(pub *const T);
impl<T> Clone for Arc<T> { fn clone(&self) -> Self { Arc(self.0) } }
impl<T> std::ops::Deref for Arc<T> { type Target = T; fn deref(&self) -> &T { unsafe { &*self.0 } } }

#[derive(Clone, Copy)]
pub struct Name(usize);
impl Name { pub fn to_owned(&self) -> Name { *self } }

/// stands for Arc<dyn Connector>
#[derive(Clone, Copy)]
pub struct ConnRef { pub id: usize }
impl ConnRef {
    pub fn has_feature(&self, _f: Feature) -> bool { unsafe { FEATURE_OK[self.id as usize] } }
    pub fn name(&self) -> Name { Name(self.id) }
    pub async fn connect(&self, _state: Arc<GlobalState>, _ctx: ContextRef) -> Result<(), Error> {
        unsafe {
            N_CONNECT += 1;
            T_CONNECT = tick();
            CONNECT_ID = self.id;
            if CONNECT_OK { Ok(()) } else { Err(Error { cause: () }) }
        }
    }
}

pub struct Rule { pub target: Option<ConnRef>, pub matches: bool }
impl Rule {
    /// contract of Rule::evaluate (proved in Verus unit `rules`): a fixed boolean per rule and request
    pub fn evaluate(&self, _ctx: &Context) -> bool { unsafe { N_EVAL += 1; } self.matches }
}

pub struct IoParams;
pub struct GlobalState { pub rules: [Arc<Rule>; MAX_RULES], pub n: usize, pub io_params: IoParams }
/// read guard over the rule list: derefs to a slice like RwLockReadGuard<Vec<Arc<Rule>>> does (iter, len, get, indexing)
pub struct RulesGuard<'a>(&'a [Arc<Rule>]);
impl<'a> std::ops::Deref for RulesGuard<'a> { type Target = [Arc<Rule>]; fn deref(&self) -> &[Arc<Rule>] { self.0 } }
impl GlobalState {
    pub async fn rules(&self) -> RulesGuard<'_> { unsafe { N_RULES_GUARD += 1; } RulesGuard(&self.rules[..self.n]) }
}

#[derive(Clone, Copy)]
pub struct Props { pub request_feature: Feature }
impl Props { pub fn to_string(&self) -> Msg { Msg } pub fn clone(&self) -> Props { *self } }
pub struct Context { props: Props }
impl Context {
    pub fn props(&self) -> &Props { &self.props }
    pub fn feature(&self) -> Feature { self.props.request_feature }
    pub fn set_state(&mut self, s: ContextState) -> &mut Self { unsafe { LAST_STATE = match s { ContextState::ServerConnecting => 1, ContextState::Terminated => 2 }; } self }
    pub fn set_connector(&mut self, n: Name) -> &mut Self { unsafe { RECORDED = n.0; N_SET_CONNECTOR += 1; } self }
}
static mut CTX: Context = Context { props: Props { request_feature: Feature::TcpForward } };

#[derive(Clone, Copy)]
pub struct ContextRef;
pub struct Guard;
impl std::ops::Deref for Guard { type Target = Context; fn deref(&self) -> &Context { unsafe { &CTX } } }
impl std::ops::DerefMut for Guard { fn deref_mut(&mut self) -> &mut Context { unsafe { &mut CTX } } }
impl ContextRef {
    pub async fn read_owned(self) -> Guard { Guard }
    pub async fn read(&self) -> Guard { Guard }
    pub async fn write(&self) -> Guard { Guard }
    pub async fn to_string(&self) -> Msg { Msg }
    pub async fn on_error(&self, _e: Error) { unsafe { N_ON_ERROR += 1; T_ON_ERROR = tick(); } }
    pub async fn on_connect(&self) { unsafe { N_ON_CONNECT += 1; T_ON_CONNECT = tick(); } }
    pub async fn on_finish(&self) { unsafe { N_ON_FINISH += 1; tick(); } }
}
pub async fn copy_bidi(_ctx: ContextRef, _p: &IoParams) -> Result<(), Error> {
    unsafe { N_COPY += 1; T_COPY = tick(); if COPY_OK { Ok(()) } else { Err(Error { cause: () }) } }
}

// ---------------------------------------------------------------- the real function text
include!("process_request.in.rs");

// ---------------------------------------------------------------- harness
#[cfg(kani)]
fn any_rule() -> Rule {
    let has_target: bool = kani::any();
    let id: usize = kani::any();
    kani::assume(id < N_CONN);
    Rule { target: if has_target { Some(ConnRef { id }) } else { None }, matches: kani::any() }
}

// NOTE (Kani 0.68): the rule storage must be indexed directly (`&store[i]`); taking `&store` first and indexing
// through that reference made CBMC read garbage through the raw pointer (spurious counterexample, refuted natively).
#[cfg(kani)]
fn run(bound: usize) {
    let store = [any_rule(), any_rule(), any_rule(), any_rule()];
    let n: usize = kani::any();
    kani::assume(n <= bound);
    unsafe {
        for c in 0..N_CONN { FEATURE_OK[c] = kani::any(); }
        CONNECT_OK = kani::any();
        COPY_OK = kani::any();
        CTX.props.request_feature = if kani::any() { Feature::TcpForward } else { Feature::UdpForward };
    }
    let state_store = GlobalState { rules: [Arc(&store[0]), Arc(&store[1]), Arc(&store[2]), Arc(&store[3])], n, io_params: IoParams };
    unsafe {
        let state: Arc<GlobalState> = Arc(&state_store);
        run_ready(process_request(ContextRef, state));

        // ---- expected decision, computed from the PROPERTY statement: first rule, in order, whose filter is true
        let mut first: Option<usize> = None;
        let mut i = 0;
        while i < MAX_RULES {
            if i < n && first.is_none() && store[i].matches { first = Some(i); }
            i += 1;
        }
        let chosen: Option<ConnRef> = match first { Some(i) => store[i].target, None => None };
        let allowed = match chosen { Some(c) => FEATURE_OK[c.id as usize], None => false };

        // C15 (reader side): the whole decision is taken under ONE read guard, so a concurrent replacement of the
        // rule list cannot be observed half-way
        assert!(N_RULES_GUARD == 1);
        // C02 (i) the upstream connected to is the one named by the first matching rule, at most once
        assert!(N_CONNECT <= 1);
        if allowed {
            assert!(N_CONNECT == 1);
            assert!(CONNECT_ID == chosen.unwrap().id);
            // (iii) the recorded upstream is the one used
            assert!(N_SET_CONNECTOR == 1 && RECORDED == CONNECT_ID);
        } else {
            // (ii) deny / no match / unsupported feature: refused, no upstream connection, nothing relayed
            assert!(N_CONNECT == 0);
            assert!(N_COPY == 0);
            assert!(N_ON_CONNECT == 0);
            assert!(N_ON_ERROR == 1);
            assert!(N_ON_FINISH == 0);
        }
        // C06: "established" is reported iff the upstream connect succeeded, and after it
        assert!((N_ON_CONNECT == 1) == (allowed && CONNECT_OK));
        assert!(N_ON_CONNECT <= 1);
        if N_ON_CONNECT == 1 { assert!(T_ON_CONNECT > T_CONNECT); }
        // the relay only runs after "established"
        assert!((N_COPY == 1) == (N_ON_CONNECT == 1));
        if N_COPY == 1 { assert!(T_COPY > T_ON_CONNECT); }
        // exactly one terminal event; a failure before the tunnel is never accompanied by on_connect
        assert!(N_ON_ERROR + N_ON_FINISH == 1);
        assert!((N_ON_FINISH == 1) == (allowed && CONNECT_OK && COPY_OK));
        if N_ON_ERROR == 1 && N_ON_CONNECT == 1 { assert!(T_ON_ERROR > T_COPY); }
        if N_ON_FINISH == 1 { assert!(LAST_STATE == 2); }
    }
}

#[cfg(kani)]
#[kani::proof]
#[kani::unwind(5)]
fn process_request_le2() { run(2) }

#[cfg(kani)]
#[kani::proof]
#[kani::unwind(5)]
fn process_request_le3() { run(3) }

#[cfg(kani)]
#[kani::proof]
#[kani::unwind(6)]
fn process_request_le4() { run(4) }

/// reachability / vacuity: the allow + relay-ok path must be reachable (this cover must be SATISFIED)
#[cfg(kani)]
#[kani::proof]
#[kani::unwind(5)]
fn process_request_cover() {
    run(1);
    unsafe { kani::cover!(N_ON_FINISH == 1); kani::cover!(N_ON_ERROR == 1 && N_CONNECT == 0); kani::cover!(N_ON_ERROR == 1 && N_ON_CONNECT == 1); }
}

/// every stub future is immediately ready, so the task completes within one poll (cheaper than kani::block_on's loop)
pub fn run_ready<F: std::future::Future>(f: F) -> F::Output {
    let mut f = std::pin::pin!(f);
    let mut cx = std::task::Context::from_waker(std::task::Waker::noop());
    match f.as_mut().poll(&mut cx) { std::task::Poll::Ready(v) => v, std::task::Poll::Pending => panic!("stub future pending") }
}
fn main() {}
