// Kani stub-environment unit for `SocksListener::handshake` (src/listeners/socks.rs): C07 (credential gate before any
// routing), C06 (exactly one outcome per connection: routed XOR refused, never a refusal followed by routing),
// C13 (UDP associations get timeouts.udp).  The method text is extracted from /repo on every run and compiled verbatim;
// the function is LOOP-FREE, the stubs are heap-free and every stub outcome is symbolic, so the harness is a complete
// exploration of the function over its stub contracts (no unwinding bound is involved).
#![allow(dead_code, unused_variables, unused_macros, static_mut_refs, unused_imports, unused_mut)]
// `tracing::level!(..)` written with its path by an edit keeps compiling (log statements have no effect on the checks)
pub mod tracing {
    macro_rules! trace { ($($t:tt)*) => { () } }
    macro_rules! debug { ($($t:tt)*) => { () } }
    macro_rules! info { ($($t:tt)*) => { () } }
    macro_rules! warn_ { ($($t:tt)*) => { () } }
    macro_rules! error { ($($t:tt)*) => { () } }
    pub(crate) use {trace, debug, info, warn_ as warn, error};
}

macro_rules! debug { ($($t:tt)*) => { () } }
macro_rules! info { ($($t:tt)*) => { () } }
macro_rules! warn { ($($t:tt)*) => { () } }
macro_rules! error { ($($t:tt)*) => { () } }

pub const SOCKS_CMD_CONNECT: u8 = 1u8;
pub const SOCKS_CMD_BIND: u8 = 2u8;
pub const SOCKS_CMD_UDP_ASSOCIATE: u8 = 3u8;

// ---------------------------------------------------------------- ghost trace
static mut N_ENQUEUE: u32 = 0;
static mut N_ON_ERROR: u32 = 0;
static mut T: u32 = 0;
static mut T_ENQUEUE: u32 = 0;
static mut T_ON_ERROR: u32 = 0;
static mut T_CHECK: u32 = 0;
static mut N_CHECK: u32 = 0;
static mut CHECK_RESULT: bool = false;
static mut CHECKED_USER_IS_REQUEST_USER: bool = false;
static mut N_SET_TARGET: u32 = 0;
static mut N_UDP_SETUP: u32 = 0;
static mut IDLE_SET: Option<u64> = None;
static mut FEATURE_UDP: bool = false;
static mut CALLBACK_SET: u32 = 0;
static mut STREAM_SET: u32 = 0;
fn tick() -> u32 { unsafe { T += 1; T } }

// ---------------------------------------------------------------- stubs = callee contracts
#[derive(Clone, Copy, Debug)] pub struct Error { pub cause: () }
pub fn err_msg<M>(_m: M) -> Error { Error { cause: () } }
pub trait ResultExt<T> { fn context(self, m: &str) -> Result<T, Error>; }
impl<T> ResultExt<T> for Result<T, Error> { fn context(self, m: &str) -> Result<T, Error> { self } }

pub struct Arc<T>(pub *const T);
impl<T> std::ops::Deref for Arc<T> { type Target = T; fn deref(&self) -> &T { unsafe { &*self.0 } } }

#[derive(Clone, Copy, PartialEq, Eq, Debug)] pub struct IpAddr(pub u8);
impl IpAddr { pub fn is_unspecified(&self) -> bool { self.0 == 0 } }
#[derive(Clone, Copy, PartialEq, Eq, Debug)] pub struct SocketAddr { pub ip: IpAddr, pub port: u16 }
impl SocketAddr { pub fn new(ip: IpAddr, port: u16) -> Self { SocketAddr { ip, port } } pub fn ip(&self) -> IpAddr { self.ip } pub fn port(&self) -> u16 { self.port } }
pub fn into_unspecified(a: SocketAddr) -> SocketAddr { SocketAddr { ip: IpAddr(0), port: 0 } }
#[derive(Clone, Copy, PartialEq, Eq, Debug)] pub enum TargetAddress { Sock(SocketAddr), Domain(u8) }
impl TargetAddress { pub fn as_socket_addr(&self) -> Option<SocketAddr> { match self { TargetAddress::Sock(a) => Some(*a), _ => None } } }
impl From<SocketAddr> for TargetAddress { fn from(a: SocketAddr) -> Self { TargetAddress::Sock(a) } }

pub struct TcpStream { pub local_ok: bool }
impl TcpStream { pub fn local_addr(&self) -> Result<SocketAddr, Error> { if self.local_ok { Ok(SocketAddr { ip: IpAddr(9), port: 1080 }) } else { Err(Error { cause: () }) } } }
pub fn set_keepalive(_s: &TcpStream) -> Result<(), Error> { if any_bool() { Ok(()) } else { Err(Error { cause: () }) } }
pub struct BufStream(pub u8);
pub fn make_buffered_stream<S>(_s: S) -> BufStream { BufStream(0) }
pub struct TlsStream(pub u8);
pub struct Acceptor(pub u8);
impl Acceptor { pub async fn accept(&self, _s: TcpStream) -> Result<TlsStream, Error> { if any_bool() { Ok(TlsStream(0)) } else { Err(Error { cause: () }) } } }
pub struct TlsServerConfig(pub u8);
impl TlsServerConfig { pub fn acceptor(&self) -> Acceptor { Acceptor(0) } }

#[derive(Clone, Copy, PartialEq, Eq)] pub struct Str(pub u8);
impl Str { pub fn to_owned(&self) -> Str { *self } pub fn as_str(&self) -> Str { *self } }
#[derive(Clone, Copy, PartialEq, Eq, Debug)] pub struct Creds(pub u8, pub u8);

#[cfg(kani)] fn any_bool() -> bool { kani::any() }
#[cfg(not(kani))] fn any_bool() -> bool { false }

pub struct AuthData { pub required: bool }
impl AuthData {
    /// contract of AuthData::check (proved in Verus unit `auth`): a symbolic verdict for exactly the credentials given
    pub async fn check(&self, user: &Option<(StrU, StrU)>) -> bool {
        unsafe {
            N_CHECK += 1; T_CHECK = tick();
            CHECKED_USER_IS_REQUEST_USER = *user == REQUEST_AUTH;
            CHECK_RESULT
        }
    }
}
#[derive(Clone, Copy, PartialEq, Eq, Debug)] pub struct StrU(pub u8);
impl StrU { pub fn as_str(&self) -> &'static str { "" } }
impl From<&str> for StrU { fn from(_: &str) -> Self { StrU(0) } }
static mut REQUEST_AUTH: Option<(StrU, StrU)> = None;

pub struct PasswordAuth { pub required: bool }
#[derive(Debug)]
pub struct SocksRequest { pub version: u8, pub cmd: u8, pub target: TargetAddress, pub auth: Option<(StrU, StrU)> }
static mut REQ_OK: bool = false;
static mut REQ_CMD: u8 = 0;
impl SocksRequest {
    /// contract of SocksRequest::read_from: an arbitrary request (or an error)
    pub async fn read_from(_s: &mut BufStream, a: PasswordAuth) -> Result<SocksRequest, Error> {
        unsafe {
            AUTH_REQUIRED_PASSED = a.required;
            if !REQ_OK { return Err(Error { cause: () }); }
            Ok(SocksRequest { version: 5, cmd: REQ_CMD, target: TargetAddress::Domain(1), auth: REQUEST_AUTH })
        }
    }
}
static mut AUTH_REQUIRED_PASSED: bool = false;

pub struct Callback { pub version: u8, pub listen_addr: Option<SocketAddr> }
#[derive(Clone, Copy, PartialEq, Eq)] pub enum Feature { TcpForward, UdpForward }
pub struct Frames(pub u8);
pub async fn setup_udp_session(_l: SocketAddr, _r: Option<SocketAddr>) -> Result<(SocketAddr, Frames), Error> {
    unsafe { N_UDP_SETUP += 1; }
    if any_bool() { Ok((SocketAddr { ip: IpAddr(0), port: 5000 }, Frames(0))) } else { Err(Error { cause: () }) }
}

pub struct Context(pub u8);
impl Context {
    pub fn set_extra<V>(&mut self, _k: &str, _v: V) -> &mut Self { self }
    pub fn set_callback(&mut self, _c: Callback) -> &mut Self { unsafe { CALLBACK_SET += 1; } self }
    pub fn set_client_stream(&mut self, _s: BufStream) -> &mut Self { unsafe { STREAM_SET += 1; } self }
    pub fn set_target(&mut self, _t: TargetAddress) -> &mut Self { unsafe { N_SET_TARGET += 1; } self }
    pub fn set_feature(&mut self, f: Feature) -> &mut Self { unsafe { FEATURE_UDP = f == Feature::UdpForward; } self }
    pub fn set_client_frames(&mut self, _f: Frames) -> &mut Self { self }
    pub fn set_idle_timeout(&mut self, t: u64) -> &mut Self { unsafe { IDLE_SET = Some(t); } self }
}
static mut CTX: Context = Context(0);
pub struct Guard(pub u8);
impl std::ops::Deref for Guard { type Target = Context; fn deref(&self) -> &Context { unsafe { &CTX } } }
impl std::ops::DerefMut for Guard { fn deref_mut(&mut self) -> &mut Context { unsafe { &mut CTX } } }
#[derive(Clone, Copy)] pub struct ContextRef(pub u8);
pub struct Sender<T>(pub u8, std::marker::PhantomData<T>);
impl ContextRef {
    pub async fn write(&self) -> Guard { Guard(0) }
    pub async fn on_error(&self, _e: Error) { unsafe { N_ON_ERROR += 1; T_ON_ERROR = tick(); } }
    pub async fn enqueue(&self, _q: &Sender<ContextRef>) -> Result<(), Error> {
        unsafe { N_ENQUEUE += 1; T_ENQUEUE = tick(); }
        if any_bool() { Ok(()) } else { Err(Error { cause: () }) }
    }
}
pub struct Contexts(pub u8);
impl Contexts { pub async fn create_context(&self, _name: Str, _src: SocketAddr) -> ContextRef { ContextRef(0) } }
pub struct Timeouts { pub idle: u64, pub udp: u64 }
pub struct GlobalState { pub contexts: Contexts, pub timeouts: Timeouts }

pub struct SocksListener {
    name: Str,
    tls: Option<TlsServerConfig>,
    auth: AuthData,
    allow_udp: bool,
    enforce_udp_client: bool,
    override_udp_address: Option<IpAddr>,
}

// ---------------------------------------------------------------- the real method text
include!("handshake.in.rs");

#[cfg(kani)]
#[kani::proof]
#[kani::unwind(3)]
fn socks_handshake_all_paths() {
    let udp_timeout: u64 = kani::any();
    let idle_timeout: u64 = kani::any();
    let l = SocksListener {
        name: Str(1),
        tls: if kani::any() { Some(TlsServerConfig(0)) } else { None },
        auth: AuthData { required: kani::any() },
        allow_udp: kani::any(),
        enforce_udp_client: kani::any(),
        override_udp_address: if kani::any() { Some(IpAddr(7)) } else { None },
    };
    let st = GlobalState { contexts: Contexts(0), timeouts: Timeouts { idle: idle_timeout, udp: udp_timeout } };
    unsafe {
        REQ_OK = kani::any();
        REQ_CMD = kani::any();
        REQUEST_AUTH = if kani::any() { Some((StrU(kani::any()), StrU(kani::any()))) } else { None };
        CHECK_RESULT = kani::any();
    }
    let sock = TcpStream { local_ok: kani::any() };
    let required = l.auth.required;
    let allow_udp = l.allow_udp;
    let ret = run_ready(l.handshake(sock, SocketAddr { ip: IpAddr(3), port: 4000 }, Arc(&st), Sender(0, std::marker::PhantomData)));
    unsafe {
        // C07: the listener's credential policy is what the negotiation is run with, and the verdict is asked for
        // exactly the credentials of this request, before anything is routed
        if N_ENQUEUE > 0 || N_ON_ERROR > 0 { assert!(AUTH_REQUIRED_PASSED == required); }
        if N_ENQUEUE > 0 {
            assert!(N_CHECK == 1 && CHECK_RESULT && CHECKED_USER_IS_REQUEST_USER);
            assert!(T_CHECK < T_ENQUEUE);
        }
        if N_CHECK == 1 && !CHECK_RESULT { assert!(N_ENQUEUE == 0 && N_ON_ERROR == 1 && N_UDP_SETUP == 0 && N_SET_TARGET == 0); }
        // C06: per connection at most one outcome: routed (enqueue) XOR refused (on_error) -- never both
        assert!(N_ENQUEUE <= 1 && N_ON_ERROR <= 1);
        assert!(!(N_ENQUEUE == 1 && N_ON_ERROR == 1));
        if ret.is_ok() { assert!(N_ENQUEUE + N_ON_ERROR == 1); }
        // a request is routed only for CONNECT, or for UDP ASSOCIATE when the listener allows UDP
        if N_ENQUEUE == 1 {
            assert!(REQ_CMD == SOCKS_CMD_CONNECT || (REQ_CMD == SOCKS_CMD_UDP_ASSOCIATE && allow_udp));
            assert!(N_SET_TARGET == 1 && CALLBACK_SET >= 1 && STREAM_SET == 1);
        }
        if REQ_CMD == SOCKS_CMD_UDP_ASSOCIATE && !allow_udp { assert!(N_ENQUEUE == 0 && N_UDP_SETUP == 0); }
        // C13: a UDP association is given timeouts.udp (not the TCP idle default)
        if N_ENQUEUE == 1 && REQ_CMD == SOCKS_CMD_UDP_ASSOCIATE { assert!(FEATURE_UDP && IDLE_SET == Some(udp_timeout)); }
        if N_ENQUEUE == 1 && REQ_CMD == SOCKS_CMD_CONNECT { assert!(IDLE_SET.is_none() && !FEATURE_UDP); }
        // reachability (vacuity guard)
        kani::cover!(N_ENQUEUE == 1 && REQ_CMD == SOCKS_CMD_CONNECT);
        kani::cover!(N_ENQUEUE == 1 && REQ_CMD == SOCKS_CMD_UDP_ASSOCIATE);
        kani::cover!(N_ON_ERROR == 1 && N_CHECK == 1 && !CHECK_RESULT);
        kani::cover!(N_ON_ERROR == 1 && REQ_CMD == SOCKS_CMD_BIND);
    }
}

/// every stub future is immediately ready, so the task completes within one poll (cheaper than kani::block_on's loop)
pub fn run_ready<F: std::future::Future>(f: F) -> F::Output {
    let mut f = std::pin::pin!(f);
    let mut cx = std::task::Context::from_waker(std::task::Waker::noop());
    match f.as_mut().poll(&mut cx) { std::task::Poll::Ready(v) => v, std::task::Poll::Pending => panic!("stub future pending") }
}
fn main() {}
