// Kani stub-environment unit for the management-API handlers `get_rules` / `post_rules` (src/metrics.rs), property C15:
// "Replacing the rule list through the API is all-or-nothing ... otherwise the call reports an error ... reading the
// rules and posting them back unchanged leaves behaviour unchanged".  The `handler!` macro definition and the two
// invocations are extracted from /repo on every run and compiled verbatim; GlobalState::set_rules plays the contract
// that unit `set_rules` establishes for the real method (Ok => the posted list is in force; Err => nothing changed).
#![allow(dead_code, unused_variables, unused_macros, static_mut_refs, unused_imports, unused_mut, non_upper_case_globals)]
// `tracing::level!(..)` written with its path by an edit keeps compiling (log statements have no effect on the checks)
pub mod tracing {
    macro_rules! trace { ($($t:tt)*) => { () } }
    macro_rules! debug { ($($t:tt)*) => { () } }
    macro_rules! info { ($($t:tt)*) => { () } }
    macro_rules! warn_ { ($($t:tt)*) => { () } }
    macro_rules! error { ($($t:tt)*) => { () } }
    pub(crate) use {trace, debug, info, warn_ as warn, error};
}
pub const MAX: usize = 2;
#[derive(Clone, Copy, Debug, PartialEq, Eq)] pub struct Error(pub u8);
#[derive(Clone, Copy, Debug, PartialEq, Eq)] pub struct MyError(pub Error);
/// a rule list as the API sees it: an ordered sequence of rule identities
#[derive(Clone, Copy, PartialEq, Eq, Debug)] pub struct RuleList { pub items: [u8; MAX], pub len: usize }
impl RuleList {
    pub fn same(&self, o: &RuleList) -> bool { self.len == o.len && (self.len < 1 || self.items[0] == o.items[0]) && (self.len < 2 || self.items[1] == o.items[1]) }
    pub fn is_empty(&self) -> bool { self.len == 0 }
    pub fn len(&self) -> usize { self.len }
}
pub struct Rule(u8);
pub type VecArcRule = RuleList;

static mut CURRENT: RuleList = RuleList { items: [0; MAX], len: 0 };
static mut SET_CALLS: u32 = 0;
static mut SET_ARG: RuleList = RuleList { items: [0; MAX], len: 0 };
static mut SET_OK: bool = false;
pub struct GlobalState(pub u8);
pub struct ReadGuard(pub u8);
impl std::ops::Deref for ReadGuard { type Target = RuleList; fn deref(&self) -> &RuleList { unsafe { &CURRENT } } }
impl GlobalState {
    /// contract of GlobalState::set_rules (Kani unit `set_rules`): all-or-nothing replacement
    pub async fn set_rules(&self, rules: RuleList) -> Result<(), Error> {
        unsafe { SET_CALLS += 1; SET_ARG = rules; if SET_OK { CURRENT = rules; Ok(()) } else { Err(Error(7)) } }
    }
    pub async fn rules(&self) -> ReadGuard { ReadGuard(0) }
}
pub struct Arc<T>(pub T);
impl<T> std::ops::Deref for Arc<T> { type Target = T; fn deref(&self) -> &T { &self.0 } }
pub struct Extension<T>(pub T);
impl<T> std::ops::Deref for Extension<T> { type Target = T; fn deref(&self) -> &T { &self.0 } }
pub struct Json<T>(pub T);
impl<T> std::ops::Deref for Json<T> { type Target = T; fn deref(&self) -> &T { &self.0 } }
pub trait IntoResponse { fn body(&self) -> RuleList; }
impl IntoResponse for Json<RuleList> { fn body(&self) -> RuleList { self.0 } }
// metrics plumbing of the handler! macro
pub struct Ctr(pub u8);
impl Ctr { pub fn with_label_values(&self, _l: &[&str]) -> Ctr { Ctr(0) } pub fn inc(&self) {} pub fn start_timer(&self) -> Ctr { Ctr(1) } pub fn stop_and_record(self) {} }
pub static HTTP_COUNTER: Ctr = Ctr(0);
pub static HTTP_REQ_HISTOGRAM: Ctr = Ctr(0);
// the API payload type `Vec<Arc<Rule>>` is the abstract rule list here
pub type Vec<T> = <T as ListOf>::L;
pub trait ListOf { type L; }
impl ListOf for Arc<Rule> { type L = RuleList; }

include!("handler_macro.in.rs");
include!("get_rules.in.rs");
include!("post_rules.in.rs");

#[cfg(kani)]
fn any_list() -> RuleList { let l = RuleList { items: kani::any(), len: kani::any() }; kani::assume(l.len <= MAX); l }

#[cfg(kani)]
#[kani::proof]
#[kani::unwind(3)]
fn post_rules_all_or_nothing() {
    let old = any_list(); let posted = any_list();
    unsafe { CURRENT = old; SET_OK = kani::any(); }
    let r = run_ready(post_rules(Extension(Arc(GlobalState(0))), Json(posted)));
    unsafe {
        // every POST is handed to set_rules, exactly once, with exactly the posted list (also the empty one)
        assert!(SET_CALLS == 1 && SET_ARG.same(&posted));
        // the reply reports what set_rules decided
        assert!(r.is_ok() == SET_OK);
        match r {
            Ok(resp) => { assert!(CURRENT.same(&posted)); assert!(resp.body().same(&posted)); }
            Err(e) => { assert!(CURRENT.same(&old)); }
        }
        kani::cover!(SET_OK && posted.len == 2);
        kani::cover!(!SET_OK);
    }
}

#[cfg(kani)]
#[kani::proof]
#[kani::unwind(3)]
fn get_rules_is_current_list() {
    let cur = any_list();
    unsafe { CURRENT = cur; }
    let resp = run_ready(get_rules(Extension(Arc(GlobalState(0)))));
    unsafe {
        // GET returns the list in force, in order (so that posting it back is the identity), and changes nothing
        assert!(resp.body().same(&cur) && CURRENT.same(&cur) && SET_CALLS == 0);
        kani::cover!(cur.len == 2 && cur.items[0] != cur.items[1]);
    }
}
/// every stub future is immediately ready, so the task completes within one poll (cheaper than kani::block_on's loop)
pub fn run_ready<F: std::future::Future>(f: F) -> F::Output {
    let mut f = std::pin::pin!(f);
    let mut cx = std::task::Context::from_waker(std::task::Waker::noop());
    match f.as_mut().poll(&mut cx) { std::task::Poll::Ready(v) => v, std::task::Poll::Pending => panic!("stub future pending") }
}
fn main() {}
