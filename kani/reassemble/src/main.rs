// Kani stub-environment unit for `Fragments::reassemble` and `Fragments::timer` (src/common/fragment.rs), C11/C05.
// The struct and both method texts are extracted from /repo on every run and compiled verbatim (HashMap Entry API,
// VecDeque, closures and all).  HashMap / VecDeque / Instant / Bytes are heap-free stubs; `split_header` and
// `ReassembleQueue` play the contracts that Verus unit `fragment` proves for the real ones.
// After every step the real state is compared with a reference model written from the property:
//   * a frame is delivered exactly when the last missing piece of a consistent fragment set arrives, pieces in order;
//   * malformed / duplicate / inconsistent fragments change nothing; frames of another id are never disturbed;
//   * an incomplete frame is discarded by the first tick after its own deadline and never earlier -- also when a
//     later frame reuses the id of a completed one.
// Bounded: ids < 2, total <= 3, a history of STEPS operations (datagram or clock tick).
#![allow(dead_code, unused_variables, unused_mut, static_mut_refs, unused_imports)]
// `tracing::level!(..)` written with its path by an edit keeps compiling (log statements have no effect on the checks)
pub mod tracing {
    macro_rules! trace { ($($t:tt)*) => { () } }
    macro_rules! debug { ($($t:tt)*) => { () } }
    macro_rules! info { ($($t:tt)*) => { () } }
    macro_rules! warn_ { ($($t:tt)*) => { () } }
    macro_rules! error { ($($t:tt)*) => { () } }
    pub(crate) use {trace, debug, info, warn_ as warn, error};
}

pub const IDS: usize = 2;
pub const MAXT: usize = 3;
pub const TIMEOUT: u32 = 5;

static mut NOW: u32 = 100;

#[derive(Clone, Copy, PartialEq, Eq, PartialOrd, Ord, Debug)]
pub struct Instant(pub u32);
#[derive(Clone, Copy, PartialEq, Eq, Debug)]
pub struct Duration(pub u32);
impl Instant { pub fn now() -> Instant { unsafe { Instant(NOW) } } }
impl std::ops::Add<Duration> for Instant { type Output = Instant; fn add(self, d: Duration) -> Instant { Instant(self.0 + d.0) } }

/// a datagram (header fields + payload identity) or an assembled buffer (pieces in order)
#[derive(Clone, Copy, PartialEq, Eq, Debug)]
pub struct Bytes { pub short: bool, pub id: u16, pub total: u8, pub seq: u8, pub tag: u8, pub n: u8, pub pieces: [u8; MAXT] }
#[derive(Clone, Copy, PartialEq, Eq, Debug)]
pub struct BytesMut(pub Bytes);
impl BytesMut { pub fn freeze(self) -> Bytes { self.0 } }

/// contract of split_header (proved in Verus unit `fragment`): Some iff >= 4 bytes, 0 < total <= 127, seq < total;
/// the buffer then holds the payload only
pub fn split_header(buf: &mut Bytes) -> Option<(u16, u8, u8)> {
    if buf.short || buf.total == 0 || buf.total > 127 || buf.seq >= buf.total { return None; }
    Some((buf.id, buf.total, buf.seq))
}

/// contract of ReassembleQueue (proved in Verus unit `fragment`)
#[derive(Clone, Copy, PartialEq, Eq, Debug)]
pub struct ReassembleQueue { pub total: u8, pub have: [bool; MAXT], pub piece: [u8; MAXT] }
impl ReassembleQueue {
    pub fn new(total: u8, seq: u8, buf: Bytes) -> Self {
        assert!(total > 0 && total as usize <= MAXT && seq < total, "precondition of ReassembleQueue::new");
        let mut q = ReassembleQueue { total, have: [false; MAXT], piece: [0; MAXT] };
        q.have[seq as usize] = true;
        q.piece[seq as usize] = buf.tag;
        q
    }
    pub fn add_fragment(&mut self, total: u8, seq: u8, buf: Bytes) -> bool {
        if total != self.total || seq >= self.total || self.have[seq as usize] { return false; }
        self.have[seq as usize] = true;
        self.piece[seq as usize] = buf.tag;
        let mut all = true;
        let mut i = 0;
        while i < MAXT { if i < self.total as usize && !self.have[i] { all = false; } i += 1; }
        all
    }
    pub fn assemble(&self) -> BytesMut {
        BytesMut(Bytes { short: false, id: 0, total: 0, seq: 0, tag: 0, n: self.total, pieces: self.piece })
    }
}

pub trait Buf {}
pub trait Fragmentable: Sized { type Buffer; fn from_buffer(buf: Bytes) -> Option<Self>; }
#[derive(Clone, Copy, PartialEq, Eq, Debug)]
pub struct TestFrame(pub Bytes);
impl Buf for Bytes {}
impl Fragmentable for TestFrame { type Buffer = Bytes; fn from_buffer(buf: Bytes) -> Option<Self> { Some(TestFrame(buf)) } }

/// HashMap<u16, V> with keys < IDS as a direct-indexed table
pub struct HashMap<K, V: Copy> { pub slots: [Option<V>; IDS], _k: std::marker::PhantomData<K> }
impl<K, V: Copy> Default for HashMap<K, V> { fn default() -> Self { HashMap { slots: [None; IDS], _k: std::marker::PhantomData } } }
pub enum Entry<'a, V: Copy> { Occupied(OccupiedEntry<'a, V>), Vacant(()) }
pub struct OccupiedEntry<'a, V: Copy> { slot: &'a mut Option<V> }
impl<'a, V: Copy> OccupiedEntry<'a, V> {
    pub fn get_mut(&mut self) -> &mut V { self.slot.as_mut().unwrap() }
    pub fn remove_entry(self) -> V { self.slot.take().unwrap() }
}
impl<V: Copy> HashMap<u16, V> {
    pub fn entry(&mut self, k: u16) -> Entry<'_, V> {
        let s = &mut self.slots[k as usize];
        if s.is_some() { Entry::Occupied(OccupiedEntry { slot: s }) } else { Entry::Vacant(()) }
    }
    pub fn insert(&mut self, k: u16, v: V) -> Option<V> { self.slots[k as usize].replace(v) }
    pub fn remove(&mut self, k: &u16) -> Option<V> { self.slots[*k as usize].take() }
}

/// HashSet<u16> with keys < IDS as a bitmap (an edit may keep a set of ids next to the queue map)
pub struct HashSet<K> { pub present: [bool; IDS], _k: std::marker::PhantomData<K> }
impl<K> Default for HashSet<K> { fn default() -> Self { HashSet { present: [false; IDS], _k: std::marker::PhantomData } } }
impl HashSet<u16> {
    pub fn insert(&mut self, k: u16) -> bool { let was = self.present[k as usize]; self.present[k as usize] = true; !was }
    pub fn contains(&self, k: &u16) -> bool { self.present[*k as usize] }
    pub fn remove(&mut self, k: &u16) -> bool { let was = self.present[*k as usize]; self.present[*k as usize] = false; was }
    pub fn clear(&mut self) { self.present = [false; IDS]; }
    pub fn len(&self) -> usize { let mut n = 0; let mut i = 0; while i < IDS { if self.present[i] { n += 1; } i += 1; } n }
    pub fn is_empty(&self) -> bool { self.len() == 0 }
}

pub const DQ: usize = 6;
pub struct VecDeque<T: Copy> { pub items: [Option<T>; DQ], pub len: usize }
impl<T: Copy> Default for VecDeque<T> { fn default() -> Self { VecDeque { items: [None; DQ], len: 0 } } }
impl<T: Copy> VecDeque<T> {
    pub fn push_back(&mut self, x: T) { assert!(self.len < DQ, "stub deque capacity"); self.items[self.len] = Some(x); self.len += 1; }
    pub fn pop_front(&mut self) -> Option<T> {
        if self.len == 0 { return None; }
        let x = self.items[0];
        let mut i = 0;
        while i + 1 < DQ { self.items[i] = self.items[i + 1]; i += 1; }
        self.items[DQ - 1] = None;
        self.len -= 1;
        x
    }
    /// index of the first element for which pred is false (the deque is partitioned: pushes are in time order)
    pub fn partition_point<F: FnMut(&T) -> bool>(&self, mut pred: F) -> usize {
        let mut i = 0;
        let mut r = 0;
        let mut done = false;
        while i < DQ { if i < self.len && !done { if pred(self.items[i].as_ref().unwrap()) { r = i + 1; } else { done = true; } } i += 1; }
        r
    }
    pub fn retain<F: FnMut(&T) -> bool>(&mut self, mut f: F) {
        let mut out: [Option<T>; DQ] = [None; DQ];
        let mut n = 0;
        let mut i = 0;
        while i < DQ { if i < self.len { let x = self.items[i].unwrap(); if f(&x) { out[n] = Some(x); n += 1; } } i += 1; }
        self.items = out;
        self.len = n;
    }
    // further std API, so that an edited body that still means the same (or does not) is decided rather than rejected
    pub fn len(&self) -> usize { self.len }
    pub fn is_empty(&self) -> bool { self.len == 0 }
    pub fn front(&self) -> Option<&T> { if self.len == 0 { None } else { self.items[0].as_ref() } }
    pub fn back(&self) -> Option<&T> { if self.len == 0 { None } else { self.items[self.len - 1].as_ref() } }
    pub fn get(&self, i: usize) -> Option<&T> { if i < self.len { self.items[i].as_ref() } else { None } }
    pub fn pop_back(&mut self) -> Option<T> { if self.len == 0 { return None; } self.len -= 1; let x = self.items[self.len]; self.items[self.len] = None; x }
    pub fn clear(&mut self) { self.items = [None; DQ]; self.len = 0; }
    pub fn drain(&mut self, r: std::ops::RangeTo<usize>) -> DqDrain<T> {
        assert!(r.end <= self.len, "drain range");
        let mut out: [Option<T>; DQ] = [None; DQ];
        let mut rest: [Option<T>; DQ] = [None; DQ];
        let mut i = 0;
        while i < DQ { if i < r.end { out[i] = self.items[i]; } else if i < self.len { rest[i - r.end] = self.items[i]; } i += 1; }
        self.items = rest; self.len -= r.end;
        DqDrain { items: out, n: r.end, pos: 0 }
    }
}
pub struct DqDrain<T: Copy> { items: [Option<T>; DQ], n: usize, pos: usize }
impl<T: Copy> Iterator for DqDrain<T> { type Item = T; fn next(&mut self) -> Option<T> { if self.pos < self.n { let x = self.items[self.pos]; self.pos += 1; x } else { None } } }

// ---------------------------------------------------------------- the real struct and methods
include!("fragments.in.rs");

// ---------------------------------------------------------------- reference model (from the property statement)
#[derive(Clone, Copy, PartialEq, Eq)]
struct RefQ { total: u8, have: [bool; MAXT], piece: [u8; MAXT], deadline: u32 }

#[cfg(kani)]
static mut SMALL: bool = false;

#[cfg(kani)]
fn run(steps: usize) {
    // built by the real constructor, so that a field added by an edit is initialised the way the code does it
    let mut f: Fragments<TestFrame> = Fragments::new(Duration(TIMEOUT));
    let mut model: [Option<RefQ>; IDS] = [None; IDS];
    let mut s = 0;
    while s < steps {
        let is_tick: bool = kani::any();
        if is_tick {
            let delta: u32 = kani::any();
            kani::assume(delta <= 7);
            unsafe { NOW += delta; }
            f.timer();
            let now = unsafe { NOW };
            let mut i = 0;
            while i < IDS {
                if let Some(q) = model[i] { if q.deadline < now { model[i] = None; } }
                i += 1;
            }
        } else {
            let id: u16 = kani::any();
            kani::assume((id as usize) < IDS);
            let total: u8 = kani::any();
            kani::assume(total as usize <= MAXT || total == 200);
            let seq: u8 = kani::any();
            kani::assume(seq <= MAXT as u8);
            // the deep-history harness restricts the datagrams to well-formed halves of two-fragment frames
            if unsafe { SMALL } { kani::assume(total == 2 && seq < 2); }
            let short: bool = kani::any();
            if unsafe { SMALL } { kani::assume(!short); }
            let d = Bytes { short, id, total, seq, tag: kani::any(), n: 0, pieces: [0; MAXT] };
            let got = f.reassemble(d);
            // expected, from the property
            let mut expect: Option<Bytes> = None;
            let valid = !d.short && total > 0 && total <= 127 && seq < total;
            if valid {
                if total == 1 {
                    expect = Some(d);
                } else {
                    match model[id as usize] {
                        None => {
                            let mut q = RefQ { total, have: [false; MAXT], piece: [0; MAXT], deadline: unsafe { NOW } + TIMEOUT };
                            q.have[seq as usize] = true;
                            q.piece[seq as usize] = d.tag;
                            model[id as usize] = Some(q);
                        }
                        Some(mut q) => {
                            if q.total == total && !q.have[seq as usize] {
                                q.have[seq as usize] = true;
                                q.piece[seq as usize] = d.tag;
                                let mut all = true;
                                let mut i = 0;
                                while i < MAXT { if i < total as usize && !q.have[i] { all = false; } i += 1; }
                                if all {
                                    expect = Some(Bytes { short: false, id: 0, total: 0, seq: 0, tag: 0, n: total, pieces: q.piece });
                                    model[id as usize] = None;
                                } else {
                                    model[id as usize] = Some(q);
                                }
                            }
                        }
                    }
                }
            }
            match (got, expect) {
                (None, None) => {}
                (Some(TestFrame(g)), Some(e)) => assert!(g == e, "delivered frame equals the original"),
                (Some(_), None) => assert!(false, "a frame was fabricated"),
                (None, Some(_)) => assert!(false, "a complete frame was not delivered"),
            }
        }
        // the reassembly state equals the model for every id (nothing leaks between ids, nothing expires early or late)
        let mut i = 0;
        while i < IDS {
            match (f.queue.slots[i], model[i]) {
                (None, None) => {}
                (Some(q), Some(m)) => assert!(q.total == m.total && q.have == m.have && q.piece == m.piece, "queue content"),
                (Some(_), None) => assert!(false, "a queue outlived its frame / deadline"),
                (None, Some(_)) => assert!(false, "an incomplete frame was discarded early"),
            }
            i += 1;
        }
        s += 1;
    }
}

#[cfg(kani)]
#[kani::proof]
#[kani::unwind(8)]
fn reassemble_3steps() { run(3) }

#[cfg(kani)]
#[kani::proof]
#[kani::unwind(8)]
fn reassemble_4steps() { run(4) }

#[cfg(kani)]
#[kani::proof]
#[kani::unwind(8)]
fn reassemble_5steps() { run(5) }

#[cfg(kani)]
#[kani::proof]
#[kani::unwind(8)]
fn reassemble_6steps_two_fragment_frames() { unsafe { SMALL = true; } run(6) }

fn main() {}
