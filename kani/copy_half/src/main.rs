// Kani stub-environment unit for `copy_half` (src/copy.rs): the relay loop of one direction of every tunnel
// (properties C01 byte-stream fidelity, C04 end-of-stream relayed after the data and identically in both I/O modes,
// C10 every datagram forwarded exactly once).
// `struct SrcHalf`, `struct DstHalf` and `async fn copy_half` are extracted from /repo on every run and compiled verbatim.
// The environment is heap-light: streams / frame channels / the splice pipe are ghost-logged stubs whose methods play
// the contracts of tokio's AsyncReadExt/AsyncWriteExt, of FrameReader/FrameWriter and of splice(2) with symbolic outcomes;
// `tokio::select!` is a stub macro that runs ONE enabled branch chosen nondeterministically to completion (the stub
// futures are always ready, so there is no partially polled branch to cancel -- cancellation effects are NOT modelled).
#![allow(dead_code, unused_variables, unused_macros, static_mut_refs, unused_imports, unused_mut, non_upper_case_globals)]
use std::future::{ready, Ready, Future};
use std::pin::Pin;

macro_rules! format { ($($t:tt)*) => { Msg } }
pub mod tracing {
    macro_rules! trace { ($($t:tt)*) => { () } }
    macro_rules! debug { ($($t:tt)*) => { () } }
    macro_rules! info { ($($t:tt)*) => { () } }
    macro_rules! warn_ { ($($t:tt)*) => { () } }
    macro_rules! error { ($($t:tt)*) => { () } }
    pub(crate) use {trace, debug, info, warn_ as warn, error};
}
#[derive(Clone, Copy)] pub struct Msg;
/// stands for std::io::Error (`std::io::Error` / `std::io::ErrorKind` in the extracted text are redirected here, see
/// unit.json replace_all): a kind chosen symbolically among the ones a socket produces, so that an edited body may
/// inspect `e.kind()`.  (The real std::io::Error works too but makes every harness four times slower.)
#[derive(Clone, Copy, Debug, PartialEq, Eq)]
pub enum ErrorKind { ConnectionReset, ConnectionAborted, BrokenPipe, TimedOut, NotConnected, UnexpectedEof, WouldBlock, Interrupted, InvalidInput, Other }
#[derive(Clone, Copy, Debug, PartialEq, Eq)] pub struct IoError { pub kind: ErrorKind }
impl IoError { pub fn kind(&self) -> ErrorKind { self.kind } pub fn new<M>(kind: ErrorKind, _m: M) -> IoError { IoError { kind } } }
impl From<ErrorKind> for IoError { fn from(kind: ErrorKind) -> IoError { IoError { kind } } }
impl std::fmt::Display for IoError { fn fmt(&self, _f: &mut std::fmt::Formatter<'_>) -> std::fmt::Result { Ok(()) } }
pub type IoResult<T> = Result<T, IoError>;
#[allow(non_snake_case)]
pub fn IoError(code: u8) -> IoError {
    use ErrorKind::*;
    let k = nondet_u8();
    IoError { kind: if k == 0 { ConnectionReset } else if k == 1 { ConnectionAborted } else if k == 2 { BrokenPipe } else if k == 3 { TimedOut } else { Other } }
}
#[derive(Clone, Copy, Debug, PartialEq, Eq)] pub struct Error(pub u8);
pub fn err_msg<T>(_m: T) -> Error { Error(100) }
pub trait ResultExt<T> { fn with_context<S, F: FnOnce() -> S>(self, f: F) -> Result<T, Error>; fn context<S>(self, s: S) -> Result<T, Error>; }
impl<T> ResultExt<T> for IoResult<T> {
    fn with_context<S, F: FnOnce() -> S>(self, f: F) -> Result<T, Error> { match self { Ok(v) => Ok(v), Err(e) => Err(Error(1)) } }
    fn context<S>(self, s: S) -> Result<T, Error> { match self { Ok(v) => Ok(v), Err(e) => Err(Error(1)) } }
}
pub struct Arc<T>(pub T);
impl<T> std::ops::Deref for Arc<T> { type Target = T; fn deref(&self) -> &T { &self.0 } }

pub const BUFN: usize = 2;      // relay buffer size of the harness
pub const LOGN: usize = 3;      // capacity of the ghost logs
pub struct IoParams { pub buffer_size: usize }
pub struct BytesMut { data: [u8; BUFN], len: usize, cap: usize }
impl BytesMut {
    pub fn zeroed(n: usize) -> BytesMut { assert!(n <= BUFN); BytesMut { data: [0; BUFN], len: n, cap: n } }
    pub fn with_capacity(n: usize) -> BytesMut { assert!(n <= BUFN); BytesMut { data: [0; BUFN], len: 0, cap: n } }
    pub fn new() -> BytesMut { BytesMut { data: [0; BUFN], len: 0, cap: BUFN } }
    pub fn len(&self) -> usize { self.len }
    pub fn is_empty(&self) -> bool { self.len == 0 }
    pub fn capacity(&self) -> usize { self.cap }
    pub fn clear(&mut self) { self.len = 0; }
    pub fn truncate(&mut self, n: usize) { if n < self.len { self.len = n; } }
    pub fn has_remaining(&self) -> bool { self.len > 0 }
    pub fn remaining(&self) -> usize { self.len }
    /// Buf::advance: drop n bytes from the front
    pub fn advance(&mut self, n: usize) { assert!(n <= self.len, "advance past the end"); let mut i = 0; while i < BUFN { if i + n < BUFN { self.data[i] = self.data[i + n]; } i += 1; } self.len -= n; }
    pub fn reserve(&mut self, n: usize) { }
}
impl std::ops::Deref for BytesMut { type Target = [u8]; fn deref(&self) -> &[u8] { &self.data[..self.len] } }
impl std::ops::DerefMut for BytesMut { fn deref_mut(&mut self) -> &mut [u8] { &mut self.data[..self.len] } }

// ------------------------------------------------------------------ ghost world
static mut SRC: [u8; LOGN] = [0; LOGN];      // what the source will deliver (bytes, or frame identities)
static mut SRC_POS: usize = 0;               // how much of it has been handed to copy_half
static mut SRC_EOF: bool = false;            // the source reported end-of-stream / None
static mut DST: [u8; LOGN] = [0; LOGN];      // what the destination accepted
static mut DST_POS: usize = 0;
static mut DST_SHUT: u32 = 0;                // shutdown calls on the destination
static mut WRITE_AFTER_SHUT: bool = false;
static mut FLUSHED_POS: usize = 0;
static mut STAT_BYTES: usize = 0;
static mut STAT_FRAMES: usize = 0;
static mut PIPE: usize = 0;                  // bytes sitting in the splice pipe
static mut STEPS: u32 = 0;                   // read operations handed out (bounds the run)
pub const MAX_STEPS: u32 = 3;      // read operations per run (the last one reports end of stream)

pub struct ContextStatistics(pub u8);
impl ContextStatistics {
    pub fn incr_sent_bytes(&self, n: usize) { unsafe { STAT_BYTES += n; } }
    pub fn incr_sent_frames(&self, n: usize) { unsafe { STAT_FRAMES += n; } }
}
pub trait AsyncRead {}
pub trait AsyncWrite {}
pub struct Sock(pub u8);
impl AsyncRead for Sock {}
impl AsyncWrite for Sock {}

#[cfg(kani)] fn nondet_bool() -> bool { kani::any() }
#[cfg(not(kani))] fn nondet_bool() -> bool { false }
#[cfg(kani)] fn nondet_usize() -> usize { kani::any() }
#[cfg(not(kani))] fn nondet_usize() -> usize { 0 }
#[cfg(kani)] fn nondet_u8() -> u8 { kani::any() }
#[cfg(not(kani))] fn nondet_u8() -> u8 { 0 }
#[cfg(kani)] fn assume(b: bool) { kani::assume(b) }
#[cfg(not(kani))] fn assume(b: bool) { }

pub struct ReadHalf<T>(pub T);
impl<T> ReadHalf<T> {
    /// AsyncReadExt::read: Ok(0) = end of stream (only when buf is non-empty), Ok(n<=buf.len()) = the next n bytes, or Err
    pub fn read(&mut self, buf: &mut [u8]) -> Ready<IoResult<usize>> { unsafe {
        STEPS += 1;
        if nondet_bool() { return ready(Err(IoError(1))); }
        let n = nondet_usize();
        assume(n <= buf.len() && SRC_POS + n <= LOGN);
        if STEPS >= MAX_STEPS { assume(n == 0); }
        if n == 0 { SRC_EOF = true; }
        let mut i = 0;
        while i < BUFN { if i < n { buf[i] = SRC[SRC_POS + i]; } i += 1; }
        SRC_POS += n;
        ready(Ok(n))
    } }
}
impl<T> ReadHalf<T> {
    /// AsyncReadExt::read_buf: appends the next 1..=spare bytes to buf; Ok(0) = end of stream (or no spare capacity)
    pub fn read_buf(&mut self, buf: &mut BytesMut) -> Ready<IoResult<usize>> { unsafe {
        STEPS += 1;
        if nondet_bool() { return ready(Err(IoError(1))); }
        let spare = buf.cap - buf.len;
        let n = nondet_usize();
        assume(n <= spare && SRC_POS + n <= LOGN);
        if STEPS >= MAX_STEPS { assume(n == 0); }
        if n == 0 && spare > 0 { SRC_EOF = true; }
        let mut i = 0;
        while i < BUFN { if i < n { buf.data[buf.len + i] = SRC[SRC_POS + i]; } i += 1; }
        buf.len += n; SRC_POS += n;
        ready(Ok(n))
    } }
}
pub struct WriteHalf<T>(pub T);
impl<T> WriteHalf<T> {
    fn accept(&mut self, buf: &[u8], n: usize) { unsafe {
        assert!(DST_POS + n <= LOGN);
        let mut i = 0;
        while i < BUFN { if i < n { DST[DST_POS + i] = buf[i]; } i += 1; }
        DST_POS += n;
    } }
    /// AsyncWriteExt::write: ONE write call, accepts a non-empty prefix of buf (short writes are legal), or Err
    pub fn write(&mut self, buf: &[u8]) -> Ready<IoResult<usize>> { unsafe {
        if DST_SHUT > 0 { WRITE_AFTER_SHUT = true; }
        if nondet_bool() { return ready(Err(IoError(2))); }
        let n = nondet_usize(); assume(n <= buf.len() && (n > 0 || buf.len() == 0));
        self.accept(buf, n);
        ready(Ok(n))
    } }
    /// AsyncWriteExt::write_buf: ONE write call on the remaining bytes of buf, which is advanced by what was accepted
    pub fn write_buf(&mut self, buf: &mut BytesMut) -> Ready<IoResult<usize>> { unsafe {
        if DST_SHUT > 0 { WRITE_AFTER_SHUT = true; }
        if nondet_bool() { return ready(Err(IoError(2))); }
        let n = nondet_usize(); assume(n <= buf.len && (n > 0 || buf.len == 0));
        let d = buf.data; self.accept(&d[..buf.len], n);
        buf.advance(n);
        ready(Ok(n))
    } }
    /// AsyncWriteExt::write_all_buf: everything remaining in buf is accepted in order and buf is emptied, or Err
    pub fn write_all_buf(&mut self, buf: &mut BytesMut) -> Ready<IoResult<()>> { unsafe {
        if DST_SHUT > 0 { WRITE_AFTER_SHUT = true; }
        if nondet_bool() { return ready(Err(IoError(2))); }
        let d = buf.data; let n = buf.len; self.accept(&d[..n], n);
        buf.len = 0;
        ready(Ok(()))
    } }
    /// AsyncWriteExt::write_all: all of buf is accepted in order, or Err (then an unspecified prefix was: modelled as none)
    pub fn write_all(&mut self, buf: &[u8]) -> Ready<IoResult<()>> { unsafe {
        if DST_SHUT > 0 { WRITE_AFTER_SHUT = true; }
        if nondet_bool() { return ready(Err(IoError(2))); }
        assert!(DST_POS + buf.len() <= LOGN);
        let mut i = 0;
        while i < BUFN { if i < buf.len() { DST[DST_POS + i] = buf[i]; } i += 1; }
        DST_POS += buf.len();
        ready(Ok(()))
    } }
    pub fn flush(&mut self) -> Ready<IoResult<()>> { unsafe { if nondet_bool() { return ready(Err(IoError(3))); } FLUSHED_POS = DST_POS; ready(Ok(())) } }
    pub fn shutdown(&mut self) -> Ready<IoResult<()>> { unsafe { DST_SHUT += 1; if nondet_bool() { return ready(Err(IoError(4))); } FLUSHED_POS = DST_POS; ready(Ok(())) } }
}

/// a frame is its identity (one byte) here; length as reported by the writer is symbolic
#[derive(Clone, Copy, Debug, PartialEq, Eq)] pub struct Frame(pub u8);
pub trait FrameReader: Send { fn read(&mut self) -> Ready<IoResult<Option<Frame>>>; }
pub trait FrameWriter: Send { fn write(&mut self, f: Frame) -> Ready<IoResult<usize>>; fn shutdown(&mut self) -> Ready<IoResult<()>>; }
pub struct FR(pub u8);
pub struct FW(pub u8);
impl FrameReader for FR {
    /// FrameReader::read: Ok(Some(frame)) = the next frame, Ok(None) = the channel ended, or Err
    fn read(&mut self) -> Ready<IoResult<Option<Frame>>> { unsafe {
        STEPS += 1;
        if nondet_bool() { return ready(Err(IoError(5))); }
        if nondet_bool() || STEPS >= MAX_STEPS || SRC_POS >= LOGN { SRC_EOF = true; return ready(Ok(None)); }
        let f = Frame(SRC[SRC_POS]); SRC_POS += 1;
        ready(Ok(Some(f)))
    } }
}
impl FrameWriter for FW {
    /// FrameWriter::write: the frame is sent as one unit; returns the number of payload bytes, which is 0 for an
    /// empty datagram (a legal UDP payload); or Err
    fn write(&mut self, f: Frame) -> Ready<IoResult<usize>> { unsafe {
        if DST_SHUT > 0 { WRITE_AFTER_SHUT = true; }
        if nondet_bool() { return ready(Err(IoError(6))); }
        assert!(DST_POS < LOGN);
        DST[DST_POS] = f.0; DST_POS += 1;
        let len = nondet_usize(); assume(len <= 65535);
        ready(Ok(len))
    } }
    fn shutdown(&mut self) -> Ready<IoResult<()>> { unsafe { DST_SHUT += 1; if nondet_bool() { return ready(Err(IoError(7))); } ready(Ok(())) } }
}

// ------------------------------------------------------------------ splice plumbing
pub struct OwnedFd(pub u8);
pub struct AsyncFd<T>(pub T);
pub mod futures {
    pub mod future {
        /// stand-in for Pin<Box<dyn Future + Send>>: the stub futures are always ready, so no allocation and no dyn dispatch
        pub struct BoxFuture<'a, T>(pub Option<T>, pub std::marker::PhantomData<&'a ()>);
        impl<'a, T: Unpin> std::future::Future for BoxFuture<'a, T> {
            type Output = T;
            fn poll(mut self: std::pin::Pin<&mut Self>, _cx: &mut std::task::Context<'_>) -> std::task::Poll<T> { std::task::Poll::Ready(self.0.take().unwrap()) }
        }
    }
    pub trait FutureExt { type Out; fn boxed<'a>(self) -> future::BoxFuture<'a, Self::Out>; }
    impl<T> FutureExt for std::future::Ready<T> { type Out = T; fn boxed<'a>(self) -> future::BoxFuture<'a, T> { future::BoxFuture(Some(self.into_inner()), std::marker::PhantomData) } }
}
use futures::future::BoxFuture;
pub mod common { pub mod splice {
    use crate::*;
    /// fd 1 = source socket, 2 = destination socket, 3/4 = pipe ends
    /// splice(2): moves 0 < n <= len bytes that are available at fd_in (0 = end of stream), or Err.
    /// Out of the pipe into the destination the kernel may accept fewer bytes than the pipe holds (short write).
    pub fn async_splice(fd_in: &mut AsyncFd<OwnedFd>, fd_out: &AsyncFd<OwnedFd>, len: usize, more: bool) -> Ready<IoResult<usize>> { unsafe {
        if (fd_in.0).0 == 1 {
            STEPS += 1;
            if nondet_bool() { return ready(Err(IoError(8))); }
            let n = nondet_usize();
            assume(n <= len && SRC_POS + n <= LOGN);
            if STEPS >= MAX_STEPS { assume(n == 0); }
            if n == 0 && len > 0 { SRC_EOF = true; }   // splice(.., len = 0) returns 0 without having looked at the socket
            SRC_POS += n; PIPE += n;
            ready(Ok(n))
        } else {
            if DST_SHUT > 0 { WRITE_AFTER_SHUT = true; }
            if nondet_bool() { return ready(Err(IoError(9))); }
            let n = nondet_usize();
            assume(n <= len && n <= PIPE && (n > 0 || PIPE == 0));
            // the bytes leave the pipe in order: destination log := source[..DST_POS+n]
            let mut i = 0;
            while i < LOGN { if i >= DST_POS && i < DST_POS + n { DST[i] = SRC[i]; } i += 1; }
            DST_POS += n; PIPE -= n;
            ready(Ok(n))
        }
    } }
    /// shutdown(fd, SHUT_WR) on the destination socket
    pub fn shutdown_write(fd: &AsyncFd<OwnedFd>) -> IoResult<()> { unsafe { assert!((fd.0).0 == 2, "half-close goes to the destination socket"); DST_SHUT += 1; if nondet_bool() { return Err(IoError(11)); } Ok(()) } }
    pub fn pipe() -> IoResult<(AsyncFd<OwnedFd>, AsyncFd<OwnedFd>)> { if nondet_bool() { Err(IoError(10)) } else { Ok((AsyncFd(OwnedFd(3)), AsyncFd(OwnedFd(4)))) } }
} }

// ------------------------------------------------------------------ tokio::select! stand-in
pub mod tokio {
    macro_rules! select {
        (@acc [$($acc:tt)*] else => $e:block) => { crate::tokio::select!(@emit [$($acc)*] $e) };
        (@acc [$($acc:tt)*] $p:ident = $f:expr, if $c:expr => $h:block $($rest:tt)*) => { crate::tokio::select!(@acc [$($acc)* ($p, $f, $c, $h)] $($rest)*) };
        (@emit [$(($p:ident, $f:expr, $c:expr, $h:block))+] $e:block) => {{
            // every enabled branch may be the one that completes first; a disabled branch is never polled
            let mut __done = false; let mut __any = false;
            $( if $c { __any = true; if !__done && crate::nondet_bool() { __done = true; let $p = $f.await; $h } } )+
            crate::assume(__done || !__any);
            if !__any $e
        }};
        ($p:ident = $($t:tt)*) => { crate::tokio::select!(@acc [] $p = $($t)*) };
    }
    pub(crate) use select;
}

include!("src_half.in.rs");
include!("dst_half.in.rs");
include!("copy_half.in.rs");

/// every stub future is immediately ready, so the whole relay loop completes within one poll
pub fn run_ready<F: std::future::Future>(f: F) -> F::Output {
    let mut f = std::pin::pin!(f);
    let mut cx = std::task::Context::from_waker(std::task::Waker::noop());
    match f.as_mut().poll(&mut cx) { std::task::Poll::Ready(v) => v, std::task::Poll::Pending => panic!("stub future pending") }
}

// ------------------------------------------------------------------ harnesses
#[cfg(kani)]
fn init_world() { unsafe { SRC = kani::any(); } }

/// what every mode must satisfy when copy_half returns
#[cfg(kani)]
fn check_common(r: &Result<(), Error>) { unsafe {
    // nothing invented, nothing reordered, nothing duplicated: the destination log is a prefix of the source
    assert!(DST_POS <= SRC_POS);
    let mut i = 0;
    while i < LOGN { if i < DST_POS { assert!(DST[i] == SRC[i]); } i += 1; }
    assert!(!WRITE_AFTER_SHUT);
    if r.is_ok() {
        // a direction ends normally only at the source's end-of-stream, with everything delivered
        assert!(SRC_EOF);
        assert!(DST_POS == SRC_POS);
        // ... and the end of stream is passed on exactly once, after the data, in every I/O mode
        assert!(DST_SHUT == 1);
    }
} }

#[cfg(kani)]
#[kani::proof]
#[kani::unwind(4)]
fn frames_relayed_exactly_once() {
    init_world();
    let src: SrcHalf<Sock> = SrcHalf { name: "client", stream: None, frames: Some(Box::new(FR(0))), rawfd: None };
    let dst: DstHalf<Sock> = DstHalf { name: "server", stream: None, frames: Some(Box::new(FW(0))), rawfd: None };
    let r = run_ready(copy_half(&IoParams { buffer_size: BUFN }, src, dst, Arc(ContextStatistics(0))));
    check_common(&r);
    unsafe {
        if r.is_ok() { assert!(DST_SHUT == 1 && STAT_FRAMES == DST_POS); }
        kani::cover!(r.is_ok() && DST_POS == 2);
        kani::cover!(r.is_err() && DST_POS == 1);
    }
}

#[cfg(kani)]
#[kani::proof]
#[kani::unwind(4)]
fn stream_relayed_in_order() {
    init_world();
    let src: SrcHalf<Sock> = SrcHalf { name: "client", stream: Some(ReadHalf(Sock(0))), frames: None, rawfd: None };
    let dst: DstHalf<Sock> = DstHalf { name: "server", stream: Some(WriteHalf(Sock(0))), frames: None, rawfd: None };
    let r = run_ready(copy_half(&IoParams { buffer_size: BUFN }, src, dst, Arc(ContextStatistics(0))));
    check_common(&r);
    unsafe {
        if r.is_ok() { assert!(DST_SHUT == 1 && FLUSHED_POS == DST_POS && STAT_BYTES == DST_POS); }
        kani::cover!(r.is_ok() && DST_POS == 3);
        kani::cover!(r.is_err() && DST_POS == 2);
    }
}

#[cfg(kani)]
fn splice_run(steps: u32) {
    init_world();
    let src: SrcHalf<Sock> = SrcHalf { name: "client", stream: None, frames: None, rawfd: Some(AsyncFd(OwnedFd(1))) };
    let dst: DstHalf<Sock> = DstHalf { name: "server", stream: None, frames: None, rawfd: Some(AsyncFd(OwnedFd(2))) };
    let r = run_ready(copy_half(&IoParams { buffer_size: BUFN }, src, dst, Arc(ContextStatistics(0))));
    check_common(&r);
    unsafe {
        // C13: what was relayed is accounted in the statistics (they carry the "last data" time the idle check reads)
        if r.is_ok() { assert!(STAT_BYTES == DST_POS); }
        kani::cover!(r.is_ok() && DST_POS == 2); kani::cover!(r.is_ok() && DST_POS == 1);
    }
}

#[cfg(kani)]
#[kani::proof]
#[kani::unwind(4)]
fn splice_relayed_in_order() { splice_run(3) }

fn main() {}
