// Kani stub-environment unit for the TLS policy wiring (src/common/tls.rs, src/common/quic.rs), property C07:
//   * a listener whose configuration says `client: {ca, required: true}` installs a verifier that REQUIRES a client
//     certificate chaining to that CA (required: false -> optional), no `client` section -> no client auth;
//   * a CA that cannot be loaded is a start-up error, never a silent fallback to "no client auth";
//   * the QUIC listener installs the same verifier as the TCP listeners for the same TlsServerConfig;
//   * a connector without `insecure` verifies the server against the configured roots (WebPKI), with `insecure` it doesn't.
// The texts of TlsClientVerifyConfig::verifier, TlsServerConfig::client_auth / init, create_quic_server and
// TlsClientConfig::init are extracted from /repo on every run and compiled verbatim (closures, builder chains);
// rustls / quinn builders, PEM loading and the root stores are stubs that record what was installed.  Loop-free.
#![allow(dead_code, unused_variables, unused_macros, static_mut_refs, unused_imports, unused_mut)]
// `tracing::level!(..)` written with its path by an edit keeps compiling (log statements have no effect on the checks)
pub mod tracing {
    macro_rules! trace { ($($t:tt)*) => { () } }
    macro_rules! debug { ($($t:tt)*) => { () } }
    macro_rules! info { ($($t:tt)*) => { () } }
    macro_rules! warn_ { ($($t:tt)*) => { () } }
    macro_rules! error { ($($t:tt)*) => { () } }
    pub(crate) use {trace, debug, info, warn_ as warn, error};
}
use std::sync::Arc;
use std::time::Duration;
use std::convert::TryInto;

#[derive(Clone, Copy, Debug)] pub struct Error { pub cause: u8 }
pub trait ResultExt<T> { fn context(self, m: &str) -> Result<T, Error>; }
impl<T, E> ResultExt<T> for Result<T, E> { fn context(self, m: &str) -> Result<T, Error> { match self { Ok(v) => Ok(v), Err(_) => Err(Error { cause: 1 }) } } }

// ---------------------------------------------------------------- environment (symbolic, fixed before the calls)
static mut ROOTS_OK: bool = true;      // can the CA file of the client-verify section be loaded
static mut CERTS_OK: bool = true;      // can cert/key of the server be loaded
static mut SINGLE_CERT_OK: bool = true;
static mut CLIENT_ROOTS_OK: bool = true;

#[derive(Clone, Copy, PartialEq, Eq, Debug)]
pub enum Kind { NoClientAuth, Required(u8), Optional(u8) }   // u8 = identity of the CA root store
pub trait ClientCertVerifier { fn kind(&self) -> Kind; }
pub struct V(pub Kind);
impl ClientCertVerifier for V { fn kind(&self) -> Kind { self.0 } }
#[derive(Clone, Copy, PartialEq, Eq, Debug)] pub struct RootCertStore(pub u8);
pub struct AllowAnyAuthenticatedClient;
impl AllowAnyAuthenticatedClient { pub fn new(r: RootCertStore) -> Arc<dyn ClientCertVerifier> { Arc::new(V(Kind::Required(r.0))) } }
pub struct AllowAnyAnonymousOrAuthenticatedClient;
impl AllowAnyAnonymousOrAuthenticatedClient { pub fn new(r: RootCertStore) -> Arc<dyn ClientCertVerifier> { Arc::new(V(Kind::Optional(r.0))) } }
pub struct NoClientAuth;
impl NoClientAuth { pub fn new() -> Arc<dyn ClientCertVerifier> { Arc::new(V(Kind::NoClientAuth)) } }

pub struct Certificate(pub u8);
pub struct PrivateKey(pub u8);
pub struct Certs(pub u8);

// rustls::ServerConfig builder: records the client verifier that ends up in the config
pub struct ServerConfig { pub client_kind: Kind, pub alpn_protocols: Alpn }
pub struct Alpn(pub u8);
pub struct SB0; pub struct SB1; pub struct SB2 { kind: Kind }
impl ServerConfig { pub fn builder() -> SB0 { SB0 } }
impl SB0 {
    pub fn with_safe_defaults(self) -> SB1 { SB1 }
    // the explicit spelling of the same builder steps (rustls 0.21): cipher suites, key exchange groups, protocol versions
    pub fn with_safe_default_cipher_suites(self) -> SB0a { SB0a }
}
pub struct SB0a; pub struct SB0b;
impl SB0a { pub fn with_safe_default_kx_groups(self) -> SB0b { SB0b } }
impl SB0b {
    pub fn with_protocol_versions(self, _v: &[&SupportedProtocolVersion]) -> Result<SB1, TlsErr> { Ok(SB1) }
    pub fn with_safe_default_protocol_versions(self) -> Result<SB1, TlsErr> { Ok(SB1) }
}
pub struct SupportedProtocolVersion(pub u8);
#[derive(Debug)] pub struct TlsErr;
impl SB1 {
    pub fn with_client_cert_verifier(self, v: Arc<dyn ClientCertVerifier>) -> SB2 { SB2 { kind: v.kind() } }
    pub fn with_no_client_auth(self) -> SB2 { SB2 { kind: Kind::NoClientAuth } }
}
impl SB2 {
    pub fn with_single_cert(self, _c: Certs, _k: PrivateKey) -> Result<ServerConfig, Error> {
        unsafe { if SINGLE_CERT_OK { Ok(ServerConfig { client_kind: self.kind, alpn_protocols: Alpn(0) }) } else { Err(Error { cause: 2 }) } }
    }
}
pub mod rustls { pub use super::ServerConfig; pub mod version { pub static TLS13: crate::SupportedProtocolVersion = crate::SupportedProtocolVersion(13); pub static TLS12: crate::SupportedProtocolVersion = crate::SupportedProtocolVersion(12); } }

pub struct TlsServerConfigPopulated { pub config: Arc<ServerConfig> }

pub struct TlsClientVerifyConfig { ca: u8, required: bool }
impl TlsClientVerifyConfig {
    /// callee contract of root_store(): the configured CA's roots, or an error when the file cannot be loaded
    fn root_store(&self) -> Result<RootCertStore, Error> { unsafe { if ROOTS_OK { Ok(RootCertStore(self.ca)) } else { Err(Error { cause: 3 }) } } }
}
pub struct TlsServerConfig { cert: u8, key: u8, client: Option<TlsClientVerifyConfig>, populated: Option<TlsServerConfigPopulated> }
impl TlsServerConfig {
    /// callee contract of certs()
    pub fn certs(&self) -> Result<(Certs, PrivateKey), Error> { unsafe { if CERTS_OK { Ok((Certs(self.cert), PrivateKey(self.key))) } else { Err(Error { cause: 4 }) } } }
}

// quinn side of create_quic_server
pub mod quinn {
    pub struct TransportConfig(pub u8);
    impl Default for TransportConfig { fn default() -> Self { TransportConfig(0) } }
    pub struct VarInt(pub u64);
    impl From<u8> for VarInt { fn from(x: u8) -> Self { VarInt(x as u64) } }
    pub struct IdleTimeout(pub u64);
    impl std::convert::TryFrom<std::time::Duration> for IdleTimeout { type Error = (); fn try_from(d: std::time::Duration) -> Result<Self, ()> { Ok(IdleTimeout(0)) } }
    impl TransportConfig {
        pub fn max_concurrent_uni_streams(&mut self, _v: VarInt) -> &mut Self { self }
        pub fn keep_alive_interval(&mut self, _v: Option<std::time::Duration>) -> &mut Self { self }
        pub fn max_idle_timeout(&mut self, _v: Option<IdleTimeout>) -> &mut Self { self }
    }
}
pub struct QuicServerConfig { pub crypto_kind: Kind, pub transport: Arc<quinn::TransportConfig> }
impl QuicServerConfig { pub fn with_crypto(c: Arc<ServerConfig>) -> Self { QuicServerConfig { crypto_kind: c.client_kind, transport: Arc::new(quinn::TransportConfig(0)) } } }
pub struct AlpnList;
pub const ALPN_QUIC_HTTP11C: AlpnList = AlpnList;
pub struct AlpnIter;
pub struct AlpnIter2<B>(pub std::marker::PhantomData<B>, pub u8);
pub struct Alpn1(pub u8);
impl From<&'static [u8]> for Alpn1 { fn from(_x: &'static [u8]) -> Self { Alpn1(0) } }
impl AlpnList { pub fn iter(&self) -> AlpnIter { AlpnIter } }
impl AlpnIter { pub fn map<B, F: FnMut(&&'static [u8]) -> B>(self, _f: F) -> AlpnIter2<B> { AlpnIter2(std::marker::PhantomData, 0) } }
impl AlpnIter2<Alpn1> { pub fn collect(self) -> Alpn { Alpn(1) } }

// ---------------------------------------------------------------- client side (connectors): TlsClientConfig
#[derive(Clone, Copy, PartialEq, Eq, Debug)]
pub enum SrvVerifier { Insecure, WebPki { has_public_roots: bool, n_ca: u8, ca_id: u8 } }
pub trait ServerCertVerifier { fn sv(&self) -> SrvVerifier; }
pub struct SV(pub SrvVerifier);
impl ServerCertVerifier for SV { fn sv(&self) -> SrvVerifier { self.0 } }
pub struct WebPkiVerifier;
impl WebPkiVerifier { pub fn new(roots: RootCertStore2, _ct: Option<()>) -> SV { SV(SrvVerifier::WebPki { has_public_roots: roots.0.public, n_ca: roots.0.n_ca, ca_id: roots.0.ca_id }) } }
/// what ends up trusted: the public web PKI roots and / or the certificates of the configured CA file
#[derive(Clone, Copy, PartialEq, Eq, Debug)]
pub struct ClientRootStore { pub public: bool, pub n_ca: u8, pub ca_id: u8 }
pub type PathBuf = u8;
static mut CA_CERTS_OK: bool = true;
static mut CA_N_CERTS: u8 = 1;
/// contract of load_certs(path): the certificates of that file (0..=2 here) or an error
#[derive(Clone, Copy)] pub struct CaCert(pub u8);
pub struct CertVec { pub items: [CaCert; 2], pub n: u8 }
impl CertVec { pub fn is_empty(&self) -> bool { self.n == 0 } }
pub struct CertIter { v: CertVec, pos: u8 }
impl Iterator for CertIter { type Item = CaCert; fn next(&mut self) -> Option<CaCert> { if self.pos < self.v.n { let c = self.v.items[self.pos as usize]; self.pos += 1; Some(c) } else { None } } }
impl IntoIterator for CertVec { type Item = CaCert; type IntoIter = CertIter; fn into_iter(self) -> CertIter { CertIter { v: self, pos: 0 } } }
macro_rules! vec { () => { CertVec { items: [CaCert(0); 2], n: 0 } } }
pub fn load_certs(p: &PathBuf) -> Result<CertVec, Error> { unsafe { if CA_CERTS_OK { Ok(CertVec { items: [CaCert(*p); 2], n: CA_N_CERTS }) } else { Err(Error { cause: 5 }) } } }
impl RootCertStore2 {
    pub fn empty() -> Self { RootCertStore2(ClientRootStore { public: false, n_ca: 0, ca_id: 0 }) }
    pub fn add(&mut self, c: &CaCert) -> Result<(), Error> { self.0.n_ca += 1; self.0.ca_id = c.0; Ok(()) }
    pub fn add_server_trust_anchors<I>(&mut self, _i: I) { self.0.public = true; }
}
pub struct RootCertStore2(pub ClientRootStore);
pub mod webpki_roots { pub struct Roots(pub RootList); pub struct RootList; pub struct RootIter; pub struct Ta { pub subject: u8, pub spki: u8, pub name_constraints: u8 }
    impl RootList { pub fn iter(&self) -> RootIter { RootIter } } impl RootIter { pub fn map<B, F: FnMut(&Ta) -> B>(self, _f: F) -> RootIter { RootIter } }
    pub const TLS_SERVER_ROOTS: Roots = Roots(RootList); }
pub struct OwnedTrustAnchor;
impl OwnedTrustAnchor { pub fn from_subject_spki_name_constraints(_a: u8, _b: u8, _c: u8) -> Self { OwnedTrustAnchor } }
pub struct ClientConfig { pub verifier: SrvVerifier, pub has_client_cert: bool }
pub struct CB0; pub struct CB1; pub struct CB2 { v: SrvVerifier }
impl ClientConfig { pub fn builder() -> CB0 { CB0 } }
impl CB0 { pub fn with_safe_defaults(self) -> CB1 { CB1 } }
impl CB1 { pub fn with_custom_certificate_verifier<V: ServerCertVerifier + ?Sized>(self, v: Arc<V>) -> CB2 { CB2 { v: v.sv() } } }
impl CB2 {
    pub fn with_single_cert(self, _c: Certs, _k: PrivateKey) -> Result<ClientConfig, Error> { unsafe { if SINGLE_CERT_OK { Ok(ClientConfig { verifier: self.v, has_client_cert: true }) } else { Err(Error { cause: 6 }) } } }
    pub fn with_no_client_auth(self) -> ClientConfig { ClientConfig { verifier: self.v, has_client_cert: false } }
}
pub struct TlsClientAuthConfig { cert: u8, key: u8 }
impl TlsClientAuthConfig { pub fn certs(&self) -> Result<(Certs, PrivateKey), Error> { unsafe { if CERTS_OK { Ok((Certs(self.cert), PrivateKey(self.key))) } else { Err(Error { cause: 4 }) } } } }
pub struct TlsClientConfigPopulated { pub config: Arc<ClientConfig> }
pub struct TlsClientConfig { pub ca: Option<PathBuf>, pub insecure: bool, pub auth: Option<TlsClientAuthConfig>, populated: Option<TlsClientConfigPopulated>, disable_early_data: bool }
impl TlsClientConfig { pub fn insecure_verifier(&self) -> Arc<SV> { Arc::new(SV(SrvVerifier::Insecure)) } }

// ---------------------------------------------------------------- the real texts
include!("tls.in.rs");
include!("tls_client.in.rs");

#[cfg(kani)]
#[kani::proof]
#[kani::unwind(2)]
fn tls_server_policy() {
    unsafe { ROOTS_OK = kani::any(); CERTS_OK = kani::any(); SINGLE_CERT_OK = kani::any(); }
    let has_client: bool = kani::any();
    let required: bool = kani::any();
    let ca: u8 = kani::any();
    let mk = || TlsServerConfig { cert: 1, key: 2, client: if has_client { Some(TlsClientVerifyConfig { ca, required }) } else { None }, populated: None };
    let expected = if !has_client { Kind::NoClientAuth } else if required { Kind::Required(ca) } else { Kind::Optional(ca) };
    // TCP listeners (http / socks): TlsServerConfig::init
    let mut t = mk();
    let r = t.init();
    unsafe {
        if r.is_ok() {
            assert!(t.populated.is_some());
            assert!(t.populated.as_ref().unwrap().config.client_kind == expected);
            assert!(CERTS_OK && SINGLE_CERT_OK && (!has_client || ROOTS_OK));
        } else {
            assert!(t.populated.is_none());
        }
        // a client-verify section whose CA cannot be loaded never degrades to a weaker policy
        if has_client && !ROOTS_OK { assert!(r.is_err()); }
    }
    // QUIC listener: create_quic_server on the same configuration
    let q = create_quic_server(&mk());
    unsafe {
        if let Ok(cfg) = &q { assert!(cfg.crypto_kind == expected); }
        if has_client && !ROOTS_OK { assert!(q.is_err()); }
        kani::cover!(r.is_ok() && has_client && required);
        kani::cover!(q.is_ok() && has_client && !required);
        kani::cover!(r.is_err() && has_client && !ROOTS_OK);
    }
}

#[cfg(kani)]
#[kani::proof]
#[kani::unwind(4)]
fn tls_client_policy() {
    unsafe { CA_CERTS_OK = kani::any(); CA_N_CERTS = kani::any(); kani::assume(CA_N_CERTS <= 2); CERTS_OK = kani::any(); SINGLE_CERT_OK = kani::any(); }
    let has_ca: bool = kani::any();
    let ca: u8 = kani::any();
    let insecure: bool = kani::any();
    let mut c = TlsClientConfig { ca: if has_ca { Some(ca) } else { None }, insecure, auth: if kani::any() { Some(TlsClientAuthConfig { cert: 1, key: 2 }) } else { None }, populated: None, disable_early_data: false };
    let r = c.init();
    unsafe {
        if r.is_ok() {
            let v = c.populated.as_ref().unwrap().config.verifier;
            if insecure { assert!(v == SrvVerifier::Insecure); }
            else {
                // without `insecure` the upstream certificate is verified; with a configured (non-empty) CA file ONLY that
                // CA is trusted -- the public web PKI roots are used only when no CA is configured
                match v {
                    SrvVerifier::Insecure => assert!(false),
                    SrvVerifier::WebPki { has_public_roots, n_ca, ca_id } => {
                        if has_ca && CA_N_CERTS > 0 { assert!(!has_public_roots && n_ca == CA_N_CERTS && ca_id == ca); }
                        else { assert!(has_public_roots && n_ca == 0); }
                    }
                }
            }
        }
        // a configured CA file that cannot be read is an error, never a fallback to the public roots
        if has_ca && !CA_CERTS_OK { assert!(r.is_err()); }
        kani::cover!(r.is_ok() && !insecure && has_ca && CA_N_CERTS == 2);
        kani::cover!(r.is_ok() && !insecure && !has_ca);
    }
}

fn main() {}
