// Kani stub-environment unit for the TLS policy wiring (src/common/tls.rs, src/common/quic.rs), property C07:
//   * a listener whose configuration says `client: {ca, required: true}` installs a verifier that REQUIRES a client
//     certificate chaining to that CA (required: false -> optional), no `client` section -> no client auth;
//   * a CA that cannot be loaded is a start-up error, never a silent fallback to "no client auth";
//   * the QUIC listener installs the same verifier as the TCP listeners for the same TlsServerConfig;
//   * a connector without `insecure` verifies the server against the configured roots (WebPKI), with `insecure` it doesn't.
// The texts of TlsClientVerifyConfig::verifier, TlsServerConfig::client_auth / init, create_quic_server and
// TlsClientConfig::init are extracted from /repo on every run and compiled verbatim (closures, builder chains);
// rustls / quinn builders, PEM loading and the root stores are stubs that record what was installed.  Loop-free.
#![allow(dead_code, unused_variables, unused_macros, static_mut_refs, unused_imports, unused_mut)]
use std::sync::Arc;
use std::time::Duration;
use std::convert::TryInto;

#[derive(Clone, Copy, Debug)] pub struct Error { pub cause: u8 }
pub trait ResultExt<T> { fn context(self, m: &str) -> Result<T, Error>; }
impl<T, E> ResultExt<T> for Result<T, E> { fn context(self, m: &str) -> Result<T, Error> { match self { Ok(v) => Ok(v), Err(_) => Err(Error { cause: 1 }) } } }

// ---------------------------------------------------------------- environment (symbolic, fixed before the calls)
static mut ROOTS_OK: bool = true;      // can the CA file of the client-verify section be loaded
static mut CERTS_OK: bool = true;      // can cert/key of the server be loaded
static mut SINGLE_CERT_OK: bool = true;
static mut CLIENT_ROOTS_OK: bool = true;

#[derive(Clone, Copy, PartialEq, Eq, Debug)]
pub enum Kind { NoClientAuth, Required(u8), Optional(u8) }   // u8 = identity of the CA root store
pub trait ClientCertVerifier { fn kind(&self) -> Kind; }
pub struct V(pub Kind);
impl ClientCertVerifier for V { fn kind(&self) -> Kind { self.0 } }
#[derive(Clone, Copy, PartialEq, Eq, Debug)] pub struct RootCertStore(pub u8);
pub struct AllowAnyAuthenticatedClient;
impl AllowAnyAuthenticatedClient { pub fn new(r: RootCertStore) -> Arc<dyn ClientCertVerifier> { Arc::new(V(Kind::Required(r.0))) } }
pub struct AllowAnyAnonymousOrAuthenticatedClient;
impl AllowAnyAnonymousOrAuthenticatedClient { pub fn new(r: RootCertStore) -> Arc<dyn ClientCertVerifier> { Arc::new(V(Kind::Optional(r.0))) } }
pub struct NoClientAuth;
impl NoClientAuth { pub fn new() -> Arc<dyn ClientCertVerifier> { Arc::new(V(Kind::NoClientAuth)) } }

pub struct Certificate(pub u8);
pub struct PrivateKey(pub u8);
pub struct Certs(pub u8);

// rustls::ServerConfig builder: records the client verifier that ends up in the config
pub struct ServerConfig { pub client_kind: Kind, pub alpn_protocols: Alpn }
pub struct Alpn(pub u8);
pub struct SB0; pub struct SB1; pub struct SB2 { kind: Kind }
impl ServerConfig { pub fn builder() -> SB0 { SB0 } }
impl SB0 { pub fn with_safe_defaults(self) -> SB1 { SB1 } }
impl SB1 {
    pub fn with_client_cert_verifier(self, v: Arc<dyn ClientCertVerifier>) -> SB2 { SB2 { kind: v.kind() } }
    pub fn with_no_client_auth(self) -> SB2 { SB2 { kind: Kind::NoClientAuth } }
}
impl SB2 {
    pub fn with_single_cert(self, _c: Certs, _k: PrivateKey) -> Result<ServerConfig, Error> {
        unsafe { if SINGLE_CERT_OK { Ok(ServerConfig { client_kind: self.kind, alpn_protocols: Alpn(0) }) } else { Err(Error { cause: 2 }) } }
    }
}
pub mod rustls { pub use super::ServerConfig; }

pub struct TlsServerConfigPopulated { pub config: Arc<ServerConfig> }

pub struct TlsClientVerifyConfig { ca: u8, required: bool }
impl TlsClientVerifyConfig {
    /// callee contract of root_store(): the configured CA's roots, or an error when the file cannot be loaded
    fn root_store(&self) -> Result<RootCertStore, Error> { unsafe { if ROOTS_OK { Ok(RootCertStore(self.ca)) } else { Err(Error { cause: 3 }) } } }
}
pub struct TlsServerConfig { cert: u8, key: u8, client: Option<TlsClientVerifyConfig>, populated: Option<TlsServerConfigPopulated> }
impl TlsServerConfig {
    /// callee contract of certs()
    pub fn certs(&self) -> Result<(Certs, PrivateKey), Error> { unsafe { if CERTS_OK { Ok((Certs(self.cert), PrivateKey(self.key))) } else { Err(Error { cause: 4 }) } } }
}

// quinn side of create_quic_server
pub mod quinn {
    pub struct TransportConfig(pub u8);
    impl Default for TransportConfig { fn default() -> Self { TransportConfig(0) } }
    pub struct VarInt(pub u64);
    impl From<u8> for VarInt { fn from(x: u8) -> Self { VarInt(x as u64) } }
    pub struct IdleTimeout(pub u64);
    impl std::convert::TryFrom<std::time::Duration> for IdleTimeout { type Error = (); fn try_from(d: std::time::Duration) -> Result<Self, ()> { Ok(IdleTimeout(0)) } }
    impl TransportConfig {
        pub fn max_concurrent_uni_streams(&mut self, _v: VarInt) -> &mut Self { self }
        pub fn keep_alive_interval(&mut self, _v: Option<std::time::Duration>) -> &mut Self { self }
        pub fn max_idle_timeout(&mut self, _v: Option<IdleTimeout>) -> &mut Self { self }
    }
}
pub struct QuicServerConfig { pub crypto_kind: Kind, pub transport: Arc<quinn::TransportConfig> }
impl QuicServerConfig { pub fn with_crypto(c: Arc<ServerConfig>) -> Self { QuicServerConfig { crypto_kind: c.client_kind, transport: Arc::new(quinn::TransportConfig(0)) } } }
pub struct AlpnList;
pub const ALPN_QUIC_HTTP11C: AlpnList = AlpnList;
pub struct AlpnIter;
pub struct AlpnIter2<B>(pub std::marker::PhantomData<B>, pub u8);
pub struct Alpn1(pub u8);
impl From<&'static [u8]> for Alpn1 { fn from(_x: &'static [u8]) -> Self { Alpn1(0) } }
impl AlpnList { pub fn iter(&self) -> AlpnIter { AlpnIter } }
impl AlpnIter { pub fn map<B, F: FnMut(&&'static [u8]) -> B>(self, _f: F) -> AlpnIter2<B> { AlpnIter2(std::marker::PhantomData, 0) } }
impl AlpnIter2<Alpn1> { pub fn collect(self) -> Alpn { Alpn(1) } }

// ---------------------------------------------------------------- the real texts
include!("tls.in.rs");

#[cfg(kani)]
#[kani::proof]
#[kani::unwind(2)]
fn tls_server_policy() {
    unsafe { ROOTS_OK = kani::any(); CERTS_OK = kani::any(); SINGLE_CERT_OK = kani::any(); }
    let has_client: bool = kani::any();
    let required: bool = kani::any();
    let ca: u8 = kani::any();
    let mk = || TlsServerConfig { cert: 1, key: 2, client: if has_client { Some(TlsClientVerifyConfig { ca, required }) } else { None }, populated: None };
    let expected = if !has_client { Kind::NoClientAuth } else if required { Kind::Required(ca) } else { Kind::Optional(ca) };
    // TCP listeners (http / socks): TlsServerConfig::init
    let mut t = mk();
    let r = t.init();
    unsafe {
        if r.is_ok() {
            assert!(t.populated.is_some());
            assert!(t.populated.as_ref().unwrap().config.client_kind == expected);
            assert!(CERTS_OK && SINGLE_CERT_OK && (!has_client || ROOTS_OK));
        } else {
            assert!(t.populated.is_none());
        }
        // a client-verify section whose CA cannot be loaded never degrades to a weaker policy
        if has_client && !ROOTS_OK { assert!(r.is_err()); }
    }
    // QUIC listener: create_quic_server on the same configuration
    let q = create_quic_server(&mk());
    unsafe {
        if let Ok(cfg) = &q { assert!(cfg.crypto_kind == expected); }
        if has_client && !ROOTS_OK { assert!(q.is_err()); }
        kani::cover!(r.is_ok() && has_client && required);
        kani::cover!(q.is_ok() && has_client && !required);
        kani::cover!(r.is_err() && has_client && !ROOTS_OK);
    }
}

fn main() {}
