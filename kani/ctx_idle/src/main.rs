// Kani unit for `Context::set_idle_timeout` / `Context::idle_timeout` (src/context.rs), property C13: the period a
// listener sets for a connection (timeouts.udp for UDP associations) is the period the relay reads back -- for every
// value, in particular 0 ("disabled") replaces an inherited non-zero default.  Both method texts are extracted from
// /repo on every run and compiled verbatim against a two-field stand-in for Context / ContextProps with the real
// std::sync::Arc and std::time::Duration.  Loop-free: complete over all u64 values.
#![allow(dead_code, unused_variables, unused_macros, static_mut_refs, unused_imports, unused_mut)]
pub mod tracing {
    macro_rules! trace { ($($t:tt)*) => { () } }
    macro_rules! debug { ($($t:tt)*) => { () } }
    macro_rules! info { ($($t:tt)*) => { () } }
    macro_rules! warn_ { ($($t:tt)*) => { () } }
    macro_rules! error { ($($t:tt)*) => { () } }
    pub(crate) use {trace, debug, info, warn_ as warn, error};
}
use std::sync::Arc;
use std::time::Duration;
#[derive(Clone)] pub struct ContextProps { pub idle_timeout: u64, pub id: u64 }
pub struct Context { props: Arc<ContextProps> }

include!("ctx_idle.in.rs");

#[cfg(kani)]
#[kani::proof]
fn idle_timeout_is_what_was_set() {
    let inherited: u64 = kani::any();
    let mut ctx = Context { props: Arc::new(ContextProps { idle_timeout: inherited, id: 1 }) };
    // what a new context starts with is what the relay reads when no listener overrides it
    assert!(ctx.idle_timeout() == Duration::from_secs(inherited));
    let t: u64 = kani::any();
    ctx.set_idle_timeout(t);
    assert!(ctx.idle_timeout() == Duration::from_secs(t), "the period read by the relay is not the one the listener set");
    kani::cover!(t == 0 && inherited != 0);
}
fn main() {}
