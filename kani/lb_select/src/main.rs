// Kani second decider for the load balancer's selectors (`round_robin`, `random`, `hash_by` of LoadBalanceConnector,
// src/connectors/loadbalance.rs), property C17: only configured members are selected; round-robin selects each of n
// members exactly k times in k*n consecutive selections; hash-by selects the same member for equal key values.
// `struct LoadBalanceConnector`, `enum Algorithm` and the three method texts are extracted from /repo on every run and
// compiled verbatim.  Member names are one-byte identities; the registry, the script value and the hasher are stubs (the
// hasher is a deterministic fold: the std SipHash is too expensive to execute symbolically and only "a function of the
// value" matters); AtomicUsize and Arc are the real std types.
#![allow(dead_code, unused_variables, unused_macros, static_mut_refs, unused_imports, unused_mut)]
// `tracing::level!(..)` written with its path by an edit keeps compiling (log statements have no effect on the checks)
pub mod tracing {
    macro_rules! trace { ($($t:tt)*) => { () } }
    macro_rules! debug { ($($t:tt)*) => { () } }
    macro_rules! info { ($($t:tt)*) => { () } }
    macro_rules! warn_ { ($($t:tt)*) => { () } }
    macro_rules! error { ($($t:tt)*) => { () } }
    pub(crate) use {trace, debug, info, warn_ as warn, error};
}
use std::future::{ready, Ready};
use std::sync::atomic::{AtomicUsize, Ordering};
use std::sync::Arc;
use std::hash::Hash;
macro_rules! debug { ($($t:tt)*) => { () } }
macro_rules! trace { ($($t:tt)*) => { () } }
macro_rules! info { ($($t:tt)*) => { () } }
macro_rules! warn_root { ($($t:tt)*) => { () } }
pub(crate) use warn_root as warn;
macro_rules! error { ($($t:tt)*) => { () } }
#[derive(Clone, Copy, PartialEq, Eq)] pub struct Error(pub u8);
macro_rules! trivial_debug { ($($t:ty),*) => { $( impl std::fmt::Debug for $t { fn fmt(&self, _f: &mut std::fmt::Formatter<'_>) -> std::fmt::Result { Ok(()) } } )* } }
trivial_debug!(Error, Name, Value, Str);

#[derive(Clone, Copy, PartialEq, Eq)] pub struct Name(pub u8);
type String = Name;
pub const MAXN: usize = 3;
pub struct Vec<T> { pub items: [T; MAXN], pub len: usize }
impl<T> std::ops::Deref for Vec<T> { type Target = [T]; fn deref(&self) -> &[T] { &self.items[..self.len] } }
#[cfg(kani)] fn nondet_usize() -> usize { kani::any() }
#[cfg(not(kani))] fn nondet_usize() -> usize { 0 }
#[cfg(kani)] fn assume(b: bool) { kani::assume(b) }
#[cfg(not(kani))] fn assume(b: bool) {}
/// rand::seq::SliceRandom::choose: None for an empty slice, otherwise ANY element
pub trait SliceRandom { type Item; fn choose<R>(&self, rng: &mut R) -> Option<&Self::Item>; }
impl<T> SliceRandom for [T] { type Item = T; fn choose<R>(&self, rng: &mut R) -> Option<&T> { if self.is_empty() { None } else { let i = nondet_usize(); assume(i < self.len()); Some(&self[i]) } } }
pub struct ThreadRng(pub u8);
pub fn thread_rng() -> ThreadRng { ThreadRng(0) }
#[cfg(kani)] impl ThreadRng { pub fn gen<T: kani::Arbitrary>(&mut self) -> T { kani::any() } pub fn gen_range(&mut self, r: std::ops::Range<usize>) -> usize { let i: usize = kani::any(); kani::assume(r.start <= i && i < r.end); i } }

static mut RECORDED: u8 = 255;            // member name stored on the context (Context::set_connector)
static mut N_RECORDED: u32 = 0;
static mut USED: u8 = 255;                // member whose connect() ran last
static mut N_USED: u32 = 0;
static mut MEMBER_OK: [bool; MAXN] = [true; MAXN];
pub trait Connector {
    fn id(&self) -> u8;
    fn name(&self) -> &Name;
    fn connect(self: Arc<Self>, state: Arc<GlobalState>, ctx: ContextRef) -> Ready<Result<(), Error>>;
}
pub struct Member(pub u8, pub Name);
impl Connector for Member {
    fn id(&self) -> u8 { self.0 }
    fn name(&self) -> &Name { &self.1 }
    fn connect(self: Arc<Self>, _state: Arc<GlobalState>, _ctx: ContextRef) -> Ready<Result<(), Error>> { unsafe {
        USED = self.0; N_USED += 1;
        ready(if MEMBER_OK[self.0 as usize] { Ok(()) } else { Err(Error(9)) })
    } }
}
impl Name { pub fn to_owned(&self) -> Name { *self } pub fn as_str(&self) -> &Name { self } }
impl std::fmt::Display for Name { fn fmt(&self, _f: &mut std::fmt::Formatter<'_>) -> std::fmt::Result { Ok(()) } }
pub struct ConnMap { pub conns: [Arc<dyn Connector>; MAXN] }
impl ConnMap {
    /// the registry is keyed by name: member name i is registered as connector i; other names are not registered
    pub fn get(&self, k: &Name) -> Option<&Arc<dyn Connector>> { if (k.0 as usize) < MAXN { Some(&self.conns[k.0 as usize]) } else { None } }
}
pub struct GlobalState { pub connectors: ConnMap }

/// the value a key expression evaluates to
#[derive(Clone, Copy, PartialEq, Eq)] pub struct Str { pub id: u8, pub len: usize }
impl Str { pub fn is_empty(&self) -> bool { self.len == 0 } pub fn len(&self) -> usize { self.len } }
#[derive(Clone, Copy, PartialEq, Eq)] pub enum Value { String(Str), Integer(i64) }
impl std::hash::Hash for Value { fn hash<H: std::hash::Hasher>(&self, h: &mut H) { match self { Value::String(s) => { h.write_u8(1); h.write_u8(s.id); h.write_usize(s.len); } Value::Integer(i) => { h.write_u8(2); h.write_i64(*i); } } } }
pub struct VfHasher(pub u64);
impl VfHasher { pub fn new() -> VfHasher { VfHasher(7) } }
/// stands for std::collections::hash_map::RandomState: every `new()` draws fresh random keys (that is its point)
pub struct VfRandomState(pub u64);
impl VfRandomState { pub fn new() -> VfRandomState { VfRandomState(nondet_usize() as u64) } }
impl std::hash::BuildHasher for VfRandomState { type Hasher = VfHasher; fn build_hasher(&self) -> VfHasher { VfHasher(self.0) } }
impl std::hash::Hasher for VfHasher {
    fn finish(&self) -> u64 { self.0 }
    fn write(&mut self, bytes: &[u8]) { let mut i = 0; while i < bytes.len() && i < 8 { self.0 = self.0.rotate_left(5) ^ (bytes[i] as u64); i += 1; } }
}
#[derive(Clone, Copy)] pub struct Props { pub key: Value, pub eval_ok: bool }
pub struct ScriptContext(pub Props);
pub struct ScriptCtxArc(pub Props);
impl From<ScriptContext> for ScriptCtxArc { fn from(c: ScriptContext) -> Self { ScriptCtxArc(c.0) } }
pub fn create_context(p: Props) -> ScriptContext { ScriptContext(p) }
pub struct KeyExpr(pub u8);
impl KeyExpr { pub fn real_value_of(&self, ctx: ScriptCtxArc) -> Result<Value, Error> { if ctx.0.eval_ok { Ok(ctx.0.key) } else { Err(Error(1)) } } }
#[derive(Clone)] pub struct CtxInner(pub Props);
impl CtxInner { pub fn props(&self) -> &Props { &self.0 } }
#[derive(Clone)] pub struct ContextRef(pub CtxInner);
pub struct CtxW(pub u8);
impl CtxW { pub fn set_connector(&mut self, n: Name) -> &mut Self { unsafe { RECORDED = n.0; N_RECORDED += 1; } self } }
impl ContextRef { pub fn read(&self) -> Ready<&CtxInner> { ready(&self.0) } pub fn write(&self) -> Ready<CtxW> { ready(CtxW(0)) } }

include!("lb.in.rs");

pub fn run_ready<F: std::future::Future>(f: F) -> F::Output {
    let mut f = std::pin::pin!(f);
    let mut cx = std::task::Context::from_waker(std::task::Waker::noop());
    match f.as_mut().poll(&mut cx) { std::task::Poll::Ready(v) => v, std::task::Poll::Pending => panic!("stub future pending") }
}

#[cfg(kani)]
fn setup(algorithm: Algorithm) -> (Arc<LoadBalanceConnector>, Arc<GlobalState>, usize) {
    let n: usize = kani::any();
    kani::assume(1 <= n && n <= MAXN);
    let start: usize = kani::any();
    // no-wrap precondition of the fairness law (as in the Verus lemma, which covers the whole range); the bounded
    // decider keeps the cursor small because a symbolic 64-bit `%` is the expensive part for CBMC
    kani::assume(start < 8);
    let lb = LoadBalanceConnector { name: Name(200), connectors: Vec { items: [Name(0), Name(1), Name(2)], len: n }, algorithm, idx: AtomicUsize::new(start), hash_by: Some(KeyExpr(0)) };
    let st = GlobalState { connectors: ConnMap { conns: [Arc::new(Member(0, Name(0))), Arc::new(Member(1, Name(1))), Arc::new(Member(2, Name(2)))] } };
    (Arc::new(lb), Arc::new(st), n)
}
#[cfg(kani)]
fn any_value() -> Value { if kani::any() { Value::String(Str { id: kani::any(), len: kani::any() }) } else { Value::Integer(kani::any()) } }

#[cfg(kani)]
#[kani::proof]
#[kani::unwind(10)]
fn hash_by_is_a_function_of_the_key() {
    let (lb, st, n) = setup(Algorithm::HashBy(Name(9)));
    let (v1, v2) = (any_value(), any_value());
    let c1 = ContextRef(CtxInner(Props { key: v1, eval_ok: kani::any() }));
    let c2 = ContextRef(CtxInner(Props { key: v2, eval_ok: kani::any() }));
    let r1 = run_ready(lb.hash_by(&st, &c1));
    let r2 = run_ready(lb.hash_by(&st, &c2));
    assert!(r1.is_ok() == c1.0 .0.eval_ok && r2.is_ok() == c2.0 .0.eval_ok);
    if let (Ok(a), Ok(b)) = (&r1, &r2) {
        assert!((a.id() as usize) < n && (b.id() as usize) < n, "only configured members");
        if v1 == v2 { assert!(a.id() == b.id(), "equal key values select the same member"); }
        kani::cover!(v1 == v2 && n == 3);
        kani::cover!(a.id() != b.id());
    }
}

#[cfg(kani)]
#[kani::proof]
#[kani::unwind(10)]
fn round_robin_is_fair() {
    let (lb, st, n) = setup(Algorithm::RoundRobin);
    let mut count = [0u32; MAXN];
    let mut i = 0;
    while i < 2 * MAXN { if i < 2 * n { let c = lb.round_robin(&st); assert!(c.is_ok()); let id = c.ok().unwrap().id() as usize; assert!(id < n, "only configured members"); count[id] += 1; } i += 1; }
    let mut j = 0;
    while j < MAXN { if j < n { assert!(count[j] == 2, "each member exactly k times in k*n selections"); } j += 1; }
    kani::cover!(n == 3);
}

#[cfg(kani)]
#[kani::proof]
#[kani::unwind(10)]
fn random_selects_members_and_every_member() {
    let (lb, st, n) = setup(Algorithm::Random);
    let c = lb.random(&st);
    assert!(c.is_ok());
    let id = c.ok().unwrap().id() as usize;
    assert!(id < n, "only configured members");
    kani::cover!(n == 3 && id == 0);
    kani::cover!(n == 3 && id == 1);
    kani::cover!(n == 3 && id == 2);
}
#[cfg(kani)]
#[kani::proof]
#[kani::unwind(10)]
fn connect_records_the_member_it_uses() {
    // the dispatch over the algorithm is three calls of selectors checked above; the round-robin arm stands for it
    // here (all three arms symbolic at once exceed 20 minutes of CBMC time)
    let k: u8 = 0;
    let (lb, st, n) = setup(Algorithm::RoundRobin);
    unsafe { MEMBER_OK = kani::any(); }
    let ctx = ContextRef(CtxInner(Props { key: any_value(), eval_ok: kani::any() }));
    let eval_ok = ctx.0 .0.eval_ok;
    let (lb2, st2) = (lb.clone(), st.clone());
    let r = run_ready(lb.connect(st, ctx));
    unsafe {
        if N_USED > 0 {
            // C17: "the member actually used is the one recorded for the connection", a configured member
            assert!((USED as usize) < n && RECORDED == USED, "the connection is recorded for another member than the one that carries it");
            assert!(r.is_ok() == MEMBER_OK[USED as usize]);
        } else {
            assert!(r.is_err() && k >= 2 && !eval_ok, "no member was asked although one could be selected");
        }
        kani::cover!(r.is_ok() && n == 3);
        kani::cover!(r.is_err() && N_USED == 1);
        // round robin is counted in SELECTIONS: with two members, two consecutive connections use both of them
        if n == 2 && N_USED == 1 {
            let first = USED;
            let ctx2 = ContextRef(CtxInner(Props { key: any_value(), eval_ok: true }));
            let _ = run_ready(lb2.connect(st2, ctx2));
            assert!(N_USED == 2 && USED != first && RECORDED == USED, "two consecutive round-robin connections went to the same member of two");
        }
    }
}
fn main() {}
