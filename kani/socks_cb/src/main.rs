// Kani second decider for the SOCKS listener's reply callback (`Callback::on_connect` / `on_error`,
// src/listeners/socks.rs), property C06: a client is told "established" when the upstream is, with ONE COMPLETE reply in
// its own protocol version, and a failure gets one complete failure reply.  `struct Callback` and both method bodies
// are extracted from /repo on every run and compiled verbatim (closures included).  SocksResponse::write_to is a stub
// that plays the contract proved for the real encoder in Verus unit `socks`: a SOCKS4 reply can carry an IPv4 address or
// a name only (an IPv6 address makes it fail after two bytes were buffered: the reply is then incomplete); a SOCKS5
// reply can carry any address and names up to 255 bytes.
#![allow(dead_code, unused_variables, unused_macros, static_mut_refs, unused_imports, unused_mut)]
// `tracing::level!(..)` written with its path by an edit keeps compiling (log statements have no effect on the checks)
pub mod tracing {
    macro_rules! trace { ($($t:tt)*) => { () } }
    macro_rules! debug { ($($t:tt)*) => { () } }
    macro_rules! info { ($($t:tt)*) => { () } }
    macro_rules! warn_ { ($($t:tt)*) => { () } }
    macro_rules! error { ($($t:tt)*) => { () } }
    pub(crate) use {trace, debug, info, warn_ as warn, error};
}
use std::future::{ready, Ready};
macro_rules! warn_ { ($($t:tt)*) => { () } }
macro_rules! trace { ($($t:tt)*) => { () } }
macro_rules! debug { ($($t:tt)*) => { () } }
pub(crate) use warn_ as warn;
#[derive(Clone, Copy, PartialEq, Eq)] pub struct Error(pub u8);
impl std::fmt::Display for Error { fn fmt(&self, _f: &mut std::fmt::Formatter<'_>) -> std::fmt::Result { Ok(()) } }
impl std::fmt::Debug for Error { fn fmt(&self, _f: &mut std::fmt::Formatter<'_>) -> std::fmt::Result { Ok(()) } }
impl std::fmt::Debug for AddrParseError { fn fmt(&self, _f: &mut std::fmt::Formatter<'_>) -> std::fmt::Result { Ok(()) } }

/// address families are all that matters for whether a reply can be encoded
#[derive(Clone, Copy, PartialEq, Eq)] pub enum SocketAddr { V4(u8), V6(u8) }
#[derive(Clone, Copy, PartialEq, Eq)] pub enum TargetAddress { SocketAddr(SocketAddr), DomainPort(u8, u16), Unknown }
impl From<SocketAddr> for TargetAddress { fn from(a: SocketAddr) -> Self { TargetAddress::SocketAddr(a) } }
pub struct AddrParseError;
/// `"0.0.0.0:0".parse()`: the literal used by on_error is an IPv4 socket address
impl std::str::FromStr for TargetAddress { type Err = AddrParseError; fn from_str(s: &str) -> Result<Self, AddrParseError> { if s.len() == 9 { Ok(TargetAddress::SocketAddr(SocketAddr::V4(0))) } else { Err(AddrParseError) } } }
impl std::str::FromStr for SocketAddr { type Err = AddrParseError; fn from_str(s: &str) -> Result<Self, AddrParseError> { if s.len() == 9 { Ok(SocketAddr::V4(0)) } else { Err(AddrParseError) } } }

pub const SOCKS_REPLY_OK: u8 = 0u8;
pub const SOCKS_REPLY_GENERAL_FAILURE: u8 = 1u8;

static mut IO_OK: bool = true;
static mut N_COMPLETE: u32 = 0;        // complete replies on the wire
static mut N_PARTIAL: u32 = 0;         // replies abandoned after some bytes were buffered
static mut LAST: (u8, u8) = (0, 0);    // (version, code) of the last complete reply
pub struct IOBufStream(pub u8);
pub struct SocksResponse { pub version: u8, pub cmd: u8, pub target: TargetAddress }
impl SocksResponse {
    pub fn write_to(&self, socket: &mut IOBufStream) -> Ready<Result<(), Error>> { unsafe {
        if !IO_OK { return ready(Err(Error(1))); }
        let encodable = match (self.version, self.target) {
            (4, TargetAddress::SocketAddr(SocketAddr::V4(_))) | (4, TargetAddress::DomainPort(_, _)) => true,
            (4, _) => false,
            (5, TargetAddress::Unknown) => false,
            (5, _) => true,
            _ => false,
        };
        if !encodable { N_PARTIAL += 1; return ready(Err(Error(2))); }
        N_COMPLETE += 1; LAST = (self.version, self.cmd);
        ready(Ok(()))
    } }
}
pub struct Context { pub client_stream: Option<IOBufStream>, pub target: TargetAddress, pub local_addr: SocketAddr, pub server_addr: SocketAddr }
impl Context {
    pub fn borrow_client_stream(&mut self) -> Option<&mut IOBufStream> { self.client_stream.as_mut() }
    pub fn target(&self) -> TargetAddress { self.target }
    pub fn local_addr(&self) -> SocketAddr { self.local_addr }
    pub fn server_addr(&self) -> SocketAddr { self.server_addr }
}

include!("callback.in.rs");

pub fn run_ready<F: std::future::Future>(f: F) -> F::Output {
    let mut f = std::pin::pin!(f);
    let mut cx = std::task::Context::from_waker(std::task::Waker::noop());
    match f.as_mut().poll(&mut cx) { std::task::Poll::Ready(v) => v, std::task::Poll::Pending => panic!("stub future pending") }
}

#[cfg(kani)]
fn any_sa() -> SocketAddr { if kani::any() { SocketAddr::V4(kani::any()) } else { SocketAddr::V6(kani::any()) } }

/// the situations the listener creates a Callback in: the version the client spoke, the target it asked for in that
/// version (SOCKS4: IPv4 or name; SOCKS5: IPv4, IPv6 or a name), and a relay address only for a SOCKS5 UDP association
#[cfg(kani)]
fn any_session(target_known: bool) -> (Callback, Context) {
    let v5: bool = kani::any();
    let k: u8 = kani::any();
    // a refusal can happen before the request was parsed: the context then still has its default target (Unknown)
    let target = if !target_known && k == 7 { TargetAddress::Unknown } else if k == 0 { TargetAddress::SocketAddr(SocketAddr::V4(kani::any())) } else if k == 1 || !v5 { TargetAddress::DomainPort(kani::any(), kani::any()) } else { TargetAddress::SocketAddr(SocketAddr::V6(kani::any())) };
    let listen_addr = if v5 && kani::any() { Some(any_sa()) } else { None };
    let has_stream: bool = kani::any();
    (Callback { version: if v5 { 5 } else { 4 }, listen_addr },
     Context { client_stream: if has_stream { Some(IOBufStream(0)) } else { None }, target, local_addr: any_sa(), server_addr: any_sa() })
}

#[cfg(kani)]
#[kani::proof]
fn on_connect_reply_is_complete() {
    let (cb, mut ctx) = any_session(true);
    kani::assume(ctx.client_stream.is_some());     // on_connect runs while the client stream is still in the context
    unsafe { IO_OK = kani::any(); }
    run_ready(cb.on_connect(&mut ctx));
    unsafe {
        // upstream established: exactly one complete success reply in the client's version -- unless the socket itself failed
        assert!(N_PARTIAL == 0, "a reply was abandoned half-written");
        if IO_OK { assert!(N_COMPLETE == 1 && LAST == (cb.version, 0)); } else { assert!(N_COMPLETE == 0); }
        kani::cover!(N_COMPLETE == 1 && cb.version == 4);
    }
}

#[cfg(kani)]
#[kani::proof]
fn on_error_reply_is_complete() {
    let (cb, mut ctx) = any_session(false);
    unsafe { IO_OK = kani::any(); }
    let had = ctx.client_stream.is_some();
    run_ready(cb.on_error(&mut ctx, Error(9)));
    unsafe {
        assert!(N_PARTIAL == 0, "a reply was abandoned half-written");
        if had && IO_OK { assert!(N_COMPLETE == 1 && LAST.0 == cb.version && LAST.1 != 0); } else { assert!(N_COMPLETE == 0); }
        kani::cover!(N_COMPLETE == 1 && cb.version == 5);
        kani::cover!(N_COMPLETE == 1 && ctx.target == TargetAddress::Unknown);
    }
}
fn main() {}
