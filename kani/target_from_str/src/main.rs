// Kani unit for `impl FromStr for TargetAddress` (src/context.rs): the parser of every textual destination -- the
// CONNECT request line of a peer (C05: no remote input can crash the proxy), `target:` fields of the configuration
// (C18: malformed configuration is an error, never a crash) -- and the inverse of the Display text the HTTP connector
// sends (C03).  The enum, the error type and the method text are extracted from /repo on every run and compiled
// verbatim against the real `str` / `String`; only std's SocketAddr parser is represented by its contract (total:
// Ok or Err).  Bounded by the input length.
#![allow(dead_code, unused_variables, unused_macros, static_mut_refs, unused_imports, unused_mut)]
pub mod tracing {
    macro_rules! trace { ($($t:tt)*) => { () } }
    macro_rules! debug { ($($t:tt)*) => { () } }
    macro_rules! info { ($($t:tt)*) => { () } }
    macro_rules! warn_ { ($($t:tt)*) => { () } }
    macro_rules! error { ($($t:tt)*) => { () } }
    pub(crate) use {trace, debug, info, warn_ as warn, error};
}
macro_rules! trace { ($($t:tt)*) => { () } }
use std::net::SocketAddr;
use std::str::FromStr;

include!("target_address.in.rs");

/// std's `SocketAddr::from_str`: total -- Ok for the texts that are a socket address, Err otherwise (symbolic here)
pub fn vf_parse_socket_addr(_s: &str) -> Result<SocketAddr, ()> {
    #[cfg(kani)] { if kani::any() { return Ok(SocketAddr::from(([0, 0, 0, 0], kani::any::<u16>()))); } }
    Err(())
}

pub const MAXLEN: usize = 3;

#[cfg(kani)]
#[kani::proof]
#[kani::unwind(8)]
fn from_str_total_and_exact() {
    let b: [u8; MAXLEN] = kani::any();
    kani::assume(b[0] < 128 && b[1] < 128 && b[2] < 128);
    let n: usize = kani::any();
    kani::assume(n <= MAXLEN);
    let s = unsafe { std::str::from_utf8_unchecked(&b[..n]) };
    // (no panic for any text is the implicit obligation)
    let r = TargetAddress::from_str(s);
    // a name:port result is exactly the text before the LAST colon and the number after it
    let mut last_colon: Option<usize> = None;
    let mut i = 0;
    while i < MAXLEN { if i < n && b[i] == b':' { last_colon = Some(i); } i += 1; }
    if let Ok(TargetAddress::DomainPort(h, p)) = &r {
        assert!(last_colon.is_some());
        let c = last_colon.unwrap();
        assert!(h.len() == c);
        let hb = h.as_bytes();
        let mut j = 0;
        while j < MAXLEN { if j < c { assert!(hb[j] == b[j]); } j += 1; }
    }
    if last_colon.is_none() { assert!(!matches!(r, Ok(TargetAddress::DomainPort(_, _)))); }
    kani::cover!(matches!(r, Ok(TargetAddress::DomainPort(_, _))));
    kani::cover!(r.is_err() && n == 3);
}
fn main() {}
