// Kani stub-environment unit for the UDP side of the direct connector (src/connectors/direct.rs), property C10:
// "every datagram a client sends through an established UDP association ... is delivered to the addressed destination as
// exactly one datagram with identical payload ... and each reply is returned ... labelled with the replying address ...
// a receive error never materialises as a datagram".
// `struct DirectFrames`, `fn setup_session`, and the bodies of FrameWriter::write / FrameReader::read for DirectFrames
// are extracted from /repo on every run and compiled verbatim; the session is built by the real setup_session.
// The UDP socket, the resolver and Frame are stubs: a ghost log records every datagram handed to the socket.
#![allow(dead_code, unused_variables, unused_macros, static_mut_refs, unused_imports, unused_mut)]
use std::future::{ready, Ready};
pub mod tracing {
    macro_rules! trace { ($($t:tt)*) => { () } }
    macro_rules! debug { ($($t:tt)*) => { () } }
    macro_rules! info { ($($t:tt)*) => { () } }
    macro_rules! warn_ { ($($t:tt)*) => { () } }
    macro_rules! error { ($($t:tt)*) => { () } }
    pub(crate) use {trace, debug, info, warn_ as warn, error};
}
pub type IoResult<T> = Result<T, IoError>;
/// stands for std::io::Error (the code names it by its full path: see unit.json `replace`)
#[derive(Clone, Copy, PartialEq, Eq)] pub struct IoError(pub u8);
#[derive(Clone, Copy, PartialEq, Eq)] pub enum ErrorKind { InvalidInput, Other }
impl IoError { pub fn new(k: ErrorKind, m: &str) -> IoError { IoError(if m.len() == 9 { 1 } else { 2 }) } }
macro_rules! trivial_debug { ($($t:ty),*) => { $( impl std::fmt::Debug for $t { fn fmt(&self, _f: &mut std::fmt::Formatter<'_>) -> std::fmt::Result { Ok(()) } } )* } }
trivial_debug!(IoError, DnsError, Name, SocketAddr, TargetAddress, Frame);
impl std::fmt::Display for DnsError { fn fmt(&self, _f: &mut std::fmt::Formatter<'_>) -> std::fmt::Result { Ok(()) } }

/// host names are one-byte identities
#[derive(Clone, Copy, PartialEq, Eq)] pub struct Name(pub u8);
impl Name { pub fn as_str(&self) -> &Name { self } pub fn to_owned(&self) -> Name { *self } pub fn to_string(&self) -> Name { *self } pub fn clone(&self) -> Name { *self } }
impl PartialEq<&Name> for Name { fn eq(&self, o: &&Name) -> bool { self.0 == o.0 } }
type String = Name;
#[derive(Clone, Copy, PartialEq, Eq)] pub struct IpAddr(pub u8);
impl IpAddr { pub fn is_unspecified(&self) -> bool { self.0 == 0 } }
#[derive(Clone, Copy, PartialEq, Eq)] pub struct SocketAddr { pub ip: IpAddr, pub port: u16 }
impl SocketAddr { pub fn ip(&self) -> IpAddr { self.ip } pub fn port(&self) -> u16 { self.port } }
#[derive(Clone, Copy, PartialEq, Eq)] pub enum TargetAddress { SocketAddr(SocketAddr), DomainPort(String, u16), Unknown }
impl From<SocketAddr> for TargetAddress { fn from(a: SocketAddr) -> Self { TargetAddress::SocketAddr(a) } }
/// payload identity instead of bytes
#[derive(Clone, Copy, PartialEq, Eq)] pub struct Bytes(pub u8, pub usize);
#[derive(Clone, Copy, PartialEq, Eq)] pub struct Frame { pub addr: Option<TargetAddress>, pub session_id: u32, pub body: Bytes }
impl Frame {
    pub fn new() -> Frame { Frame { addr: None, session_id: 0, body: Bytes(0, 0) } }
    pub fn body(&self) -> &Bytes { &self.body }
    pub fn len(&self) -> usize { self.body.1 }
    /// contract of Frame::recv_from (src/common/frames.rs): one datagram becomes the body, its source the address; or Err
    pub fn recv_from(&mut self, socket: &UdpSocket) -> Ready<IoResult<(usize, SocketAddr)>> { unsafe {
        if !RECV_OK { return ready(Err(IoError(7))); }
        self.body = RECV_BODY; self.addr = Some(RECV_FROM.into());
        ready(Ok((RECV_BODY.1, RECV_FROM)))
    } }
}
static mut RECV_OK: bool = true;
static mut RECV_BODY: Bytes = Bytes(0, 0);
static mut RECV_FROM: SocketAddr = SocketAddr { ip: IpAddr(0), port: 0 };
static mut N_SENT: u32 = 0;
static mut LAST_BODY: Bytes = Bytes(0, 0);
static mut LAST_TO: SocketAddr = SocketAddr { ip: IpAddr(0), port: 0 };
static mut SEND_OK: bool = true;
static mut N_LOOKUP: u32 = 0;
static mut DNS_OK: bool = true;
pub struct UdpSocket(pub u8);
impl UdpSocket {
    pub fn send_to(&self, body: &Bytes, to: SocketAddr) -> Ready<IoResult<usize>> { unsafe {
        if !SEND_OK { return ready(Err(IoError(8))); }
        N_SENT += 1; LAST_BODY = *body; LAST_TO = to; ready(Ok(body.1))
    } }
}
pub struct Arc<T>(pub *const T);
impl<T> Arc<T> { pub fn new(t: T) -> Arc<T> { Arc(Box::into_raw(Box::new(t))) } }
impl<T> Clone for Arc<T> { fn clone(&self) -> Self { Arc(self.0) } }
impl<T> std::ops::Deref for Arc<T> { type Target = T; fn deref(&self) -> &T { unsafe { &*self.0 } } }
#[derive(Clone, Copy)] pub struct DnsError(pub u8);
pub struct DnsConfig(pub u8);
/// the resolver: a name has one address (ip = 100 + name); the port is the one asked for
pub fn resolve(name: Name, port: u16) -> SocketAddr { SocketAddr { ip: IpAddr(100u8.wrapping_add(name.0 % 50)), port } }
impl DnsConfig {
    pub fn lookup_host(&self, host: &Name, port: u16) -> Ready<Result<SocketAddr, DnsError>> { unsafe {
        N_LOOKUP += 1;
        if !DNS_OK { return ready(Err(DnsError(1))); }
        ready(Ok(resolve(*host, port)))
    } }
}
pub type FrameIO = (Box<DirectFrames>, Box<DirectFrames>);

include!("direct_frames.in.rs");

pub fn run_ready<F: std::future::Future>(f: F) -> F::Output {
    let mut f = std::pin::pin!(f);
    let mut cx = std::task::Context::from_waker(std::task::Waker::noop());
    match f.as_mut().poll(&mut cx) { std::task::Poll::Ready(v) => v, std::task::Poll::Pending => panic!("stub future pending") }
}

#[cfg(kani)]
fn any_frame() -> Frame {
    let k: u8 = kani::any();
    let addr = if k == 0 { None } else if k == 1 { Some(TargetAddress::SocketAddr(SocketAddr { ip: IpAddr(kani::any()), port: kani::any() })) } else if k == 2 { Some(TargetAddress::DomainPort(Name(kani::any()), kani::any())) } else { Some(TargetAddress::Unknown) };
    let n: usize = kani::any(); kani::assume(n <= 65535);
    Frame { addr, session_id: kani::any(), body: Bytes(kani::any(), n) }
}

#[cfg(kani)]
#[kani::proof]
#[kani::unwind(4)]
fn direct_udp_two_datagrams_and_a_reply() {
    let fixed = SocketAddr { ip: IpAddr(kani::any()), port: kani::any() };
    let (mut rd, mut wr) = setup_session(UdpSocket(0), fixed, Arc::new(DnsConfig(0)));
    let mut k = 0;
    while k < 2 {
        let f = any_frame();
        unsafe { SEND_OK = kani::any(); DNS_OK = kani::any(); }
        let before = unsafe { N_SENT };
        let r = run_ready(wr.write(f));
        unsafe {
            // where the property says this datagram goes
            let expect: Option<SocketAddr> = if !fixed.ip.is_unspecified() { Some(fixed) } else {
                match f.addr { Some(TargetAddress::SocketAddr(a)) => Some(a), Some(TargetAddress::DomainPort(d, p)) => if DNS_OK { Some(resolve(d, p)) } else { None }, _ => None } };
            match r {
                Ok(n) => {
                    assert!(N_SENT == before + 1, "exactly one datagram per frame");
                    assert!(expect.is_some() && LAST_TO == expect.unwrap(), "sent to the addressed destination (host AND port of this datagram)");
                    assert!(LAST_BODY == f.body, "identical payload");
                    assert!(n == f.body.1);
                }
                Err(_) => { assert!(N_SENT == before, "a failed write sent nothing"); assert!(expect.is_none() || !SEND_OK); }
            }
            if expect.is_some() && SEND_OK { assert!(r.is_ok()); }
        }
        k += 1;
    }
    // a reply (or a receive error) from the socket
    unsafe { RECV_OK = kani::any(); RECV_BODY = Bytes(kani::any(), 5); RECV_FROM = SocketAddr { ip: IpAddr(kani::any()), port: kani::any() }; }
    let sent = unsafe { N_SENT };
    let r = run_ready(rd.read());
    unsafe {
        match r {
            Ok(Some(f)) => { assert!(RECV_OK, "a receive error became a datagram"); assert!(f.body == RECV_BODY && f.addr == Some(TargetAddress::SocketAddr(RECV_FROM)), "reply labelled with the replying address"); }
            Ok(None) => assert!(false, "the session ended without an error"),
            Err(_) => { assert!(!RECV_OK); }
        }
        assert!(N_SENT == sent);
        kani::cover!(N_SENT == 2 && N_LOOKUP == 2);
        kani::cover!(r.is_err());
    }
}
fn main() {}
