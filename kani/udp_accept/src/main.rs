// Kani stub-environment unit for `ReverseProxyListener::udp_accept` (src/listeners/reverse.rs): C10 (every datagram,
// including the one that opens a session, is delivered to the session of its source and to no other), C13 (the
// session gets timeouts.udp).  Method text extracted from /repo every run, compiled verbatim; loop-free; stubs are
// heap-free with symbolic outcomes.
#![allow(dead_code, unused_variables, unused_macros, static_mut_refs, unused_imports, unused_mut)]
// `tracing::level!(..)` written with its path by an edit keeps compiling (log statements have no effect on the checks)
pub mod tracing {
    macro_rules! trace { ($($t:tt)*) => { () } }
    macro_rules! debug { ($($t:tt)*) => { () } }
    macro_rules! info { ($($t:tt)*) => { () } }
    macro_rules! warn_ { ($($t:tt)*) => { () } }
    macro_rules! error { ($($t:tt)*) => { () } }
    pub(crate) use {trace, debug, info, warn_ as warn, error};
}

macro_rules! debug { ($($t:tt)*) => { () } }

#[derive(Clone, Copy, Debug)] pub struct Error { pub cause: u8 }
pub trait ResultExt<T> { fn context(self, m: &str) -> Result<T, Error>; }
impl<T> ResultExt<T> for Result<T, Error> { fn context(self, m: &str) -> Result<T, Error> { self } }

pub struct Arc<T>(pub *const T);
impl<T> std::ops::Deref for Arc<T> { type Target = T; fn deref(&self) -> &T { unsafe { &*self.0 } } }
impl<T> Clone for Arc<T> { fn clone(&self) -> Self { Arc(self.0) } }

#[derive(Clone, Copy, PartialEq, Eq, Debug)] pub struct SocketAddr(pub u8);
#[derive(Clone, Copy, PartialEq, Eq, Debug)] pub struct TargetAddress(pub u8);
#[derive(Clone, Copy, PartialEq, Eq, Debug)] pub struct Str(pub u8);
impl Str { pub fn to_owned(&self) -> Str { *self } }

// ---------------------------------------------------------------- ghost trace
static mut RECV_OK: bool = false;
static mut RECV_SOURCE: u8 = 0;
static mut RECV_PAYLOAD: u8 = 0;
static mut EXISTING: bool = false;          // does a session for RECV_SOURCE exist
static mut SENT_EXISTING: Option<Frame> = None;  // frame pushed into the existing session's channel
static mut SENT_NEW: Option<Frame> = None;       // frame pushed into the channel of the session created now
static mut N_SEND: u32 = 0;
static mut SEND_OK: bool = true;
static mut INSERTED: Option<SocketAddr> = None;
static mut INSERTED_CHAN: u8 = 0;
static mut SETUP_OK: bool = true;
static mut SETUP_RX_CHAN: u8 = 0;
static mut N_ENQUEUE: u32 = 0;
static mut IDLE_SET: Option<u64> = None;
static mut FEATURE_UDP: bool = false;
static mut FRAMES_SET: u32 = 0;
static mut TARGET_SET: Option<TargetAddress> = None;
static mut NEXT_CHAN: u8 = 10;

#[derive(Clone, Copy, PartialEq, Eq, Debug)]
pub struct Frame { pub addr: Option<TargetAddress>, pub payload: u8 }
pub struct UdpSocket(pub u8);
impl Frame {
    pub fn new() -> Frame { Frame { addr: None, payload: 0 } }
    /// contract of Frame::recv_from: the datagram read from the socket and its source
    pub async fn recv_from(&mut self, _s: &UdpSocket) -> Result<(usize, SocketAddr), Error> {
        unsafe {
            if !RECV_OK { return Err(Error { cause: 0 }); }
            self.payload = RECV_PAYLOAD;
            self.addr = Some(TargetAddress(200)); // recv_from labels the frame with its source; udp_accept relabels it
            Ok((1, SocketAddr(RECV_SOURCE)))
        }
    }
}
pub mod common_stub { }
pub mod crate_common { pub fn try_map_v4_addr(a: super::SocketAddr) -> super::SocketAddr { a } }

/// mpsc channel: sender side records what is pushed, keyed by channel id
#[derive(Clone, Copy)] pub struct ChanTx(pub u8);
pub struct ChanRx(pub u8);
impl ChanTx {
    pub async fn send(&self, f: Frame) -> Result<(), Error> {
        unsafe {
            N_SEND += 1;
            if !SEND_OK { return Err(Error { cause: 1 }); }
            if self.0 == 1 { SENT_EXISTING = Some(f); } else { SENT_NEW = Some(f); INSERTED_CHAN = if INSERTED_CHAN == 0 { 0 } else { INSERTED_CHAN }; NEW_CHAN_USED = self.0; }
            Ok(())
        }
    }
}
static mut NEW_CHAN_USED: u8 = 0;
pub fn channel(_cap: usize) -> (ChanTx, ChanRx) { unsafe { NEXT_CHAN += 1; (ChanTx(NEXT_CHAN), ChanRx(NEXT_CHAN)) } }

/// session table: one pre-existing session (channel id 1) for RECV_SOURCE iff EXISTING
pub struct CHashMap(pub u8);
impl CHashMap {
    pub async fn get(&self, k: &SocketAddr) -> Option<ChanTx> { unsafe { if EXISTING && k.0 == RECV_SOURCE { Some(ChanTx(1)) } else { None } } }
    pub async fn insert(&self, k: SocketAddr, v: ChanTx) { unsafe { INSERTED = Some(k); INSERTED_CHAN = v.0; } }
}
pub struct FrameIO(pub u8);
pub fn setup_udp_session(_t: TargetAddress, _bind: SocketAddr, _src: SocketAddr, rx: ChanRx, _b: bool) -> Result<FrameIO, Error> {
    unsafe { if SETUP_OK { SETUP_RX_CHAN = rx.0; Ok(FrameIO(rx.0)) } else { Err(Error { cause: 2 }) } }
}
#[derive(Clone, Copy, PartialEq, Eq)] pub enum Feature { TcpForward, UdpForward }
pub struct ReverseCallback(pub u8);
impl ReverseCallback { pub fn new(_c: SocketAddr, _s: Arc<CHashMap>) -> Self { ReverseCallback(0) } }
pub struct Context(pub u8);
impl Context {
    pub fn set_target(&mut self, t: TargetAddress) -> &mut Self { unsafe { TARGET_SET = Some(t); } self }
    pub fn set_feature(&mut self, f: Feature) -> &mut Self { unsafe { FEATURE_UDP = f == Feature::UdpForward; } self }
    pub fn set_idle_timeout(&mut self, t: u64) -> &mut Self { unsafe { IDLE_SET = Some(t); } self }
    pub fn set_callback(&mut self, _c: ReverseCallback) -> &mut Self { self }
    pub fn set_client_frames(&mut self, io: FrameIO) -> &mut Self { unsafe { FRAMES_SET = io.0 as u32; } self }
}
static mut CTX: Context = Context(0);
pub struct Guard(pub u8);
impl std::ops::Deref for Guard { type Target = Context; fn deref(&self) -> &Context { unsafe { &CTX } } }
impl std::ops::DerefMut for Guard { fn deref_mut(&mut self) -> &mut Context { unsafe { &mut CTX } } }
#[derive(Clone, Copy)] pub struct ContextRef(pub u8);
pub struct Sender<T>(pub u8, pub std::marker::PhantomData<T>);
impl ContextRef {
    pub async fn write(&self) -> Guard { Guard(0) }
    pub async fn enqueue(&self, _q: &Sender<ContextRef>) -> Result<(), Error> { unsafe { N_ENQUEUE += 1; } Ok(()) }
}
pub struct Contexts(pub u8);
impl Contexts { pub async fn create_context(&self, _n: Str, _s: SocketAddr) -> ContextRef { ContextRef(0) } }
pub struct Timeouts { pub idle: u64, pub udp: u64 }
pub struct GlobalState { pub contexts: Contexts, pub timeouts: Timeouts }

pub struct ReverseProxyListener { name: Str, bind: SocketAddr, target: TargetAddress, sessions: Arc<CHashMap> }

include!("udp_accept.in.rs");

#[cfg(kani)]
#[kani::proof]
#[kani::unwind(3)]
fn udp_accept_all_paths() {
    let udp_timeout: u64 = kani::any();
    let sessions = CHashMap(0);
    let l = ReverseProxyListener { name: Str(1), bind: SocketAddr(99), target: TargetAddress(7), sessions: Arc(&sessions) };
    let st = GlobalState { contexts: Contexts(0), timeouts: Timeouts { idle: kani::any(), udp: udp_timeout } };
    unsafe {
        RECV_OK = kani::any(); RECV_SOURCE = kani::any(); RECV_PAYLOAD = kani::any();
        EXISTING = kani::any(); SEND_OK = kani::any(); SETUP_OK = kani::any();
    }
    let sock = UdpSocket(0);
    let q = Sender(0, std::marker::PhantomData);
    let ret = run_ready(l.udp_accept(&Arc(&sock), &Arc(&st), &q));
    unsafe {
        let expect = Frame { addr: Some(TargetAddress(7)), payload: RECV_PAYLOAD };
        if ret.is_ok() {
            // C10: exactly one delivery of exactly this datagram, labelled with the configured destination
            assert!(N_SEND == 1);
            if EXISTING {
                assert!(SENT_EXISTING == Some(expect) && SENT_NEW.is_none());
                assert!(N_ENQUEUE == 0 && INSERTED.is_none());
            } else {
                // first datagram of a new session: it is the first frame of THAT session's channel ...
                assert!(SENT_NEW == Some(expect) && SENT_EXISTING.is_none());
                // ... the channel registered for this source is the one the session reads from ...
                assert!(INSERTED == Some(SocketAddr(RECV_SOURCE)) && INSERTED_CHAN == NEW_CHAN_USED && SETUP_RX_CHAN == NEW_CHAN_USED);
                assert!(FRAMES_SET == NEW_CHAN_USED as u32);
                // ... and the session is routed once, as UDP, with the UDP idle timeout (C13)
                assert!(N_ENQUEUE == 1 && FEATURE_UDP && IDLE_SET == Some(udp_timeout) && TARGET_SET == Some(TargetAddress(7)));
            }
        } else {
            // a receive error never materialises as a datagram
            if !RECV_OK { assert!(N_SEND == 0 && N_ENQUEUE == 0 && INSERTED.is_none()); }
        }
        kani::cover!(ret.is_ok() && EXISTING);
        kani::cover!(ret.is_ok() && !EXISTING);
        kani::cover!(ret.is_err() && RECV_OK);
    }
}

/// every stub future is immediately ready, so the task completes within one poll (cheaper than kani::block_on's loop)
pub fn run_ready<F: std::future::Future>(f: F) -> F::Output {
    let mut f = std::pin::pin!(f);
    let mut cx = std::task::Context::from_waker(std::task::Waker::noop());
    match f.as_mut().poll(&mut cx) { std::task::Poll::Ready(v) => v, std::task::Poll::Pending => panic!("stub future pending") }
}
fn main() {}
