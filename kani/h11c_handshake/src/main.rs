// Kani stub-environment unit for `h11c_handshake` (src/common/h11c.rs): the listener side of HTTP CONNECT (http and quic
// listeners).  C06: a request is either routed (enqueue, reply comes later from the callback) or refused with exactly
// one 400 reply and an error -- never both, never neither; C05: no request line / header can panic; C03: the target that
// is routed is the one parsed from the request line.  Function text extracted every run, compiled verbatim; stubs are
// heap-free with symbolic outcomes.  Loop-free apart from short string comparisons.
#![allow(dead_code, unused_variables, unused_macros, static_mut_refs, unused_imports, unused_mut)]
macro_rules! bail { ($($t:tt)*) => { return Err(Error { cause: 9 }) } }
macro_rules! trace { ($($t:tt)*) => { () } }
macro_rules! format { ($($t:tt)*) => { Msg(0) } }
pub mod tracing {
    macro_rules! trace { ($($t:tt)*) => { () } }
    macro_rules! debug { ($($t:tt)*) => { () } }
    macro_rules! info { ($($t:tt)*) => { () } }
    macro_rules! warn_ { ($($t:tt)*) => { () } }
    macro_rules! error { ($($t:tt)*) => { () } }
    pub(crate) use {trace, debug, info, warn_ as warn, error};
}
use std::future::Future;
use std::sync::atomic::{AtomicU32, Ordering};

#[derive(Clone, Copy)] pub struct Msg(pub u8);
#[derive(Clone, Copy, Debug)] pub struct Error { pub cause: u8 }
pub trait ResultExt<T> { fn context(self, m: &str) -> Result<T, Error>; fn with_context<F: FnOnce() -> Msg>(self, f: F) -> Result<T, Error>; }
impl<T, E> ResultExt<T> for Result<T, E> {
    fn context(self, m: &str) -> Result<T, Error> { match self { Ok(v) => Ok(v), Err(_) => Err(Error { cause: 1 }) } }
    fn with_context<F: FnOnce() -> Msg>(self, f: F) -> Result<T, Error> { match self { Ok(v) => Ok(v), Err(_) => Err(Error { cause: 1 }) } }
}

// ---------------------------------------------------------------- symbolic request + ghost trace
static mut READ_OK: bool = true;
static mut METHOD_IS_CONNECT: bool = true;
static mut PROTOCOL: u8 = 0;          // 0 = absent (defaults to tcp), 1 = "tcp", 2 = "udp", 3 = something else
static mut TARGET_PARSES: bool = true;
static mut TARGET_TOKEN: u8 = 0;
static mut CHANNEL_INLINE: bool = true;
static mut BIND_SOURCE_PRESENT: bool = false;
static mut FRAMES_OK: bool = true;
static mut N_ENQUEUE: u32 = 0;
static mut N_REPLY_400: u32 = 0;
static mut N_REPLY_OTHER: u32 = 0;
static mut N_SET_TARGET: u32 = 0;
static mut SET_TARGET: u8 = 255;
static mut N_CALLBACK: u32 = 0;
static mut CALLBACK_UDP: bool = false;
static mut FEATURE: u8 = 0;           // 0 unset, 1 UdpForward, 2 UdpBind
static mut N_CLIENT_FRAMES: u32 = 0;
static mut WRITE_OK: bool = true;

#[derive(Clone, Copy, PartialEq, Eq, Debug)] pub struct TargetAddress(pub u8);
pub struct ParseErr;
impl std::str::FromStr for TargetAddress {
    type Err = ParseErr;
    /// contract of TargetAddress::from_str on the request line's resource: a symbolic outcome
    fn from_str(_s: &str) -> Result<Self, ParseErr> { unsafe { if TARGET_PARSES { Ok(TargetAddress(TARGET_TOKEN)) } else { Err(ParseErr) } } }
}
#[derive(Debug)]
pub struct HttpRequest { pub method: &'static str, pub resource: &'static str }
pub struct IOBufStream(pub u8);
impl HttpRequest {
    pub async fn read_from(_s: &mut IOBufStream) -> Result<HttpRequest, Error> {
        unsafe { if READ_OK { Ok(HttpRequest { method: if METHOD_IS_CONNECT { "connect" } else { "GET" }, resource: "r" }) } else { Err(Error { cause: 2 }) } }
    }
    /// header lookup with default: real strings, chosen by the symbolic request description
    pub fn header(&self, name: &str, def: &'static str) -> &'static str {
        unsafe {
            if name.len() == 14 { match PROTOCOL { 0 => def, 1 => "TCP", 2 => "udp", _ => "sctp" } }      // Proxy-Protocol
            else if name.len() == 13 { if CHANNEL_INLINE { "Inline" } else { "quic" } }                    // Proxy-Channel
            else if BIND_SOURCE_PRESENT { "1.2.3.4:5" } else { def }                                       // Udp-Bind-Source
        }
    }
}
pub struct HttpResponse { code: u16 }
impl HttpResponse {
    pub fn new(code: u16, _status: &str) -> Self { HttpResponse { code } }
    pub async fn write_to(&self, _s: &mut IOBufStream) -> Result<(), Error> {
        unsafe {
            if !WRITE_OK { return Err(Error { cause: 3 }); }
            if self.code == 400 { N_REPLY_400 += 1; } else { N_REPLY_OTHER += 1; }
            Ok(())
        }
    }
}
pub struct FrameIO(pub u8);
#[derive(Clone, Copy, PartialEq, Eq, Debug)] pub enum Feature { TcpForward, UdpForward, UdpBind }
pub struct ConnectCallback;
pub struct FrameChannelCallback { pub session_id: u32, pub inline: bool }
pub trait AnyCallback { fn is_udp(&self) -> bool; }
impl AnyCallback for ConnectCallback { fn is_udp(&self) -> bool { false } }
impl AnyCallback for FrameChannelCallback { fn is_udp(&self) -> bool { true } }
pub struct Context { stream: IOBufStream }
impl Context {
    pub fn borrow_client_stream(&mut self) -> Option<&mut IOBufStream> { Some(&mut self.stream) }
    pub fn set_target(&mut self, t: TargetAddress) -> &mut Self { unsafe { N_SET_TARGET += 1; SET_TARGET = t.0; } self }
    pub fn set_callback<C: AnyCallback>(&mut self, c: C) -> &mut Self { unsafe { N_CALLBACK += 1; CALLBACK_UDP = c.is_udp(); } self }
    pub fn set_feature(&mut self, f: Feature) -> &mut Self { unsafe { FEATURE = match f { Feature::UdpForward => 1, Feature::UdpBind => 2, _ => 3 }; } self }
    pub fn set_extra(&mut self, _k: &str, _v: &str) -> &mut Self { self }
    pub fn set_client_frames(&mut self, _f: FrameIO) -> &mut Self { unsafe { N_CLIENT_FRAMES += 1; } self }
}
impl std::fmt::Debug for Context { fn fmt(&self, f: &mut std::fmt::Formatter<'_>) -> std::fmt::Result { Ok(()) } }
static mut CTX: Context = Context { stream: IOBufStream(0) };
pub struct Guard(pub u8);
impl std::ops::Deref for Guard { type Target = Context; fn deref(&self) -> &Context { unsafe { &CTX } } }
impl std::ops::DerefMut for Guard { fn deref_mut(&mut self) -> &mut Context { unsafe { &mut CTX } } }
#[derive(Clone, Copy)] pub struct ContextRef(pub u8);
pub struct Sender<T>(pub u8, pub std::marker::PhantomData<T>);
impl ContextRef {
    pub async fn write(&self) -> Guard { Guard(0) }
    pub async fn enqueue(&self, _q: &Sender<ContextRef>) -> Result<(), Error> { unsafe { N_ENQUEUE += 1; } Ok(()) }
}

include!("h11c_handshake.in.rs");

fn mk_frames(_ch: &str, _sid: u32) -> std::future::Ready<Result<FrameIO, Error>> { std::future::ready(unsafe { if FRAMES_OK { Ok(FrameIO(1)) } else { Err(Error { cause: 4 }) } }) }

#[cfg(kani)]
#[kani::proof]
#[kani::unwind(12)]
fn h11c_handshake_all_paths() {
    unsafe {
        READ_OK = kani::any(); METHOD_IS_CONNECT = kani::any(); PROTOCOL = kani::any(); kani::assume(PROTOCOL <= 3);
        TARGET_PARSES = kani::any(); TARGET_TOKEN = kani::any(); kani::assume(TARGET_TOKEN < 200);
        CHANNEL_INLINE = kani::any(); BIND_SOURCE_PRESENT = kani::any(); FRAMES_OK = kani::any(); WRITE_OK = kani::any();
    }
    let ret = run_ready(h11c_handshake(ContextRef(0), Sender(0, std::marker::PhantomData), mk_frames));
    unsafe {
        let tcp = PROTOCOL == 0 || PROTOCOL == 1;
        let udp = PROTOCOL == 2;
        // C06: routed XOR refused, never both; success is never written by the handshake itself (the callback does it)
        assert!(N_REPLY_OTHER == 0);
        assert!(N_ENQUEUE <= 1 && N_REPLY_400 <= 1 && !(N_ENQUEUE == 1 && N_REPLY_400 == 1));
        if ret.is_ok() {
            assert!(N_ENQUEUE == 1 && N_REPLY_400 == 0);
            assert!(READ_OK && METHOD_IS_CONNECT && TARGET_PARSES && (tcp || udp));
            // C03: what is routed is the destination of the request line; the reply callback matches the protocol
            assert!(N_SET_TARGET == 1 && SET_TARGET == TARGET_TOKEN && N_CALLBACK == 1 && CALLBACK_UDP == udp);
            if udp { assert!(FEATURE == if BIND_SOURCE_PRESENT { 2 } else { 1 }); assert!((N_CLIENT_FRAMES == 1) == !CHANNEL_INLINE); }
            if tcp { assert!(FEATURE == 0 && N_CLIENT_FRAMES == 0); }
        } else {
            assert!(N_ENQUEUE == 0);
            // a readable request that is not a supported CONNECT is answered with 400 (when the reply can be written)
            if READ_OK && WRITE_OK && (!METHOD_IS_CONNECT || (TARGET_PARSES && PROTOCOL == 3)) { assert!(N_REPLY_400 == 1); }
        }
        kani::cover!(ret.is_ok() && tcp);
        kani::cover!(ret.is_ok() && udp && !CHANNEL_INLINE);
        kani::cover!(ret.is_err() && N_REPLY_400 == 1);
    }
}
/// every stub future is immediately ready, so the task completes within one poll (cheaper than kani::block_on's loop)
pub fn run_ready<F: std::future::Future>(f: F) -> F::Output {
    let mut f = std::pin::pin!(f);
    let mut cx = std::task::Context::from_waker(std::task::Waker::noop());
    match f.as_mut().poll(&mut cx) { std::task::Poll::Ready(v) => v, std::task::Poll::Pending => panic!("stub future pending") }
}
fn main() {}
