// Kani second decider for `Frame::read_head` (src/common/frames.rs), C12 / C05: compiled verbatim against a stub `Buf`
// over a fixed 16-byte array with a symbolic fill level.  The head decision must depend only on the bytes: fewer than 12
// bytes -> Ok(None) WHATEVER they are (the stream reader then waits for more: segmentation independence); 12 or more ->
// magic check and 12 + attr_len + body_len.
#![allow(dead_code, unused_variables, unused_mut)]
// `tracing::level!(..)` written with its path by an edit keeps compiling (log statements have no effect on the checks)
pub mod tracing {
    macro_rules! trace { ($($t:tt)*) => { () } }
    macro_rules! debug { ($($t:tt)*) => { () } }
    macro_rules! info { ($($t:tt)*) => { () } }
    macro_rules! warn_ { ($($t:tt)*) => { () } }
    macro_rules! error { ($($t:tt)*) => { () } }
    pub(crate) use {trace, debug, info, warn_ as warn, error};
}
use std::io::{Error as IoError, ErrorKind, Result as IoResult};
macro_rules! format { ($($t:tt)*) => { "x" } }

pub trait Buf {
    fn remaining(&self) -> usize;
    fn chunk(&self) -> &[u8];
    fn get_u8(&mut self) -> u8;
    fn get_u16(&mut self) -> u16;
    fn get_u32(&mut self) -> u32;
}
pub struct ArrBuf { pub data: [u8; 16], pub pos: usize, pub len: usize }
impl Buf for ArrBuf {
    fn remaining(&self) -> usize { self.len - self.pos }
    fn chunk(&self) -> &[u8] { &self.data[self.pos..self.len] }
    fn get_u8(&mut self) -> u8 { assert!(self.remaining() >= 1, "Buf::get_u8 precondition"); let v = self.data[self.pos]; self.pos += 1; v }
    fn get_u16(&mut self) -> u16 { assert!(self.remaining() >= 2, "Buf::get_u16 precondition"); let v = u16::from_be_bytes([self.data[self.pos], self.data[self.pos + 1]]); self.pos += 2; v }
    fn get_u32(&mut self) -> u32 { assert!(self.remaining() >= 4, "Buf::get_u32 precondition"); let v = u32::from_be_bytes([self.data[self.pos], self.data[self.pos + 1], self.data[self.pos + 2], self.data[self.pos + 3]]); self.pos += 4; v }
}
pub struct Frame;

include!("cores.in.rs");

#[cfg(kani)]
#[kani::proof]
#[kani::unwind(18)]
fn read_head_all_buffers() {
    let data: [u8; 16] = kani::any();
    let len: usize = kani::any();
    kani::assume(len <= 16);
    let r = Frame::read_head(ArrBuf { data, pos: 0, len });
    if len < 12 {
        assert!(matches!(r, Ok(None)), "fewer than 12 bytes: wait for more, whatever the bytes are");
    } else if u32::from_be_bytes([data[0], data[1], data[2], data[3]]) != 0x5250464d {
        assert!(r.is_err());
    } else {
        let al = u16::from_be_bytes([data[8], data[9]]) as usize;
        let bl = u16::from_be_bytes([data[10], data[11]]) as usize;
        assert!(matches!(r, Ok(Some(n)) if n == 12 + al + bl));
    }
}
fn main() {}
