// Kani stub-environment unit for the part of main() between the start-up block and the creation of the request channel
// (src/main.rs), property C18: "A configuration that is accepted (including by the --test mode) never makes the proxy
// crash ... when traffic later arrives" -- every listener and every connector is verify()'d before the configuration is
// accepted, in --test mode AND in a normal start, and a verify error stops the start.  The statements are extracted as a
// block (T14) and compiled verbatim; listeners / connectors are heap-free stubs with symbolic verify outcomes.
#![allow(dead_code, unused_variables, unused_macros, static_mut_refs, unused_imports, unused_mut)]
// `tracing::level!(..)` written with its path by an edit keeps compiling (log statements have no effect on the checks)
pub mod tracing {
    macro_rules! trace { ($($t:tt)*) => { () } }
    macro_rules! debug { ($($t:tt)*) => { () } }
    macro_rules! info { ($($t:tt)*) => { () } }
    macro_rules! warn_ { ($($t:tt)*) => { () } }
    macro_rules! error { ($($t:tt)*) => { () } }
    pub(crate) use {trace, debug, info, warn_ as warn, error};
}
macro_rules! println { ($($t:tt)*) => { () } }
pub const N: usize = 2;
#[derive(Clone, Copy, Debug)] pub struct Terminator(pub u8);
static mut VERIFY_OK: [[bool; N]; 2] = [[true; N]; 2];
static mut VERIFIED: [[bool; N]; 2] = [[false; N]; 2];
pub struct Arc<T>(pub *const T);
impl<T> Clone for Arc<T> { fn clone(&self) -> Self { Arc(self.0) } }
impl<T> std::ops::Deref for Arc<T> { type Target = T; fn deref(&self) -> &T { unsafe { &*self.0 } } }
#[derive(Clone, Copy)] pub struct Comp { kind: usize, idx: usize }
impl Comp {
    pub async fn verify(&self, _s: Arc<GlobalState>) -> Result<(), Terminator> {
        unsafe { VERIFIED[self.kind][self.idx] = true; if VERIFY_OK[self.kind][self.idx] { Ok(()) } else { Err(Terminator(1)) } }
    }
}
pub struct CompMap { items: [Comp; N], n: usize }
impl CompMap { pub fn values(&self) -> std::slice::Iter<'_, Comp> { self.items[..self.n].iter() } }
pub struct GlobalState { pub listeners: CompMap, pub connectors: CompMap }

async fn block(state: Arc<GlobalState>, config_test: bool, config: &str) -> Result<bool, Terminator> {
include!("verify_block.in.rs");
    Ok(false) // fell through: the normal start continues (listen, serve)
}

#[cfg(kani)]
#[kani::proof]
#[kani::unwind(5)]
fn main_verifies_everything() {
    let nl: usize = kani::any(); let nc: usize = kani::any();
    kani::assume(nl <= N && nc <= N);
    unsafe { VERIFY_OK = kani::any(); }
    let st = GlobalState { listeners: CompMap { items: [Comp { kind: 0, idx: 0 }, Comp { kind: 0, idx: 1 }], n: nl }, connectors: CompMap { items: [Comp { kind: 1, idx: 0 }, Comp { kind: 1, idx: 1 }], n: nc } };
    let config_test: bool = kani::any();
    let r = run_ready(block(Arc(&st), config_test, "x"));
    unsafe {
        let mut all_ok = true;
        let mut i = 0;
        while i < N { if (i < nl && !VERIFY_OK[0][i]) || (i < nc && !VERIFY_OK[1][i]) { all_ok = false; } i += 1; }
        // accepted (either "--test says ok" or "normal start goes on") iff every component verified successfully ...
        assert!(r.is_ok() == all_ok);
        if r.is_ok() {
            // ... and really every one of them was asked, in both modes
            let mut j = 0;
            while j < N { if j < nl { assert!(VERIFIED[0][j]); } if j < nc { assert!(VERIFIED[1][j]); } j += 1; }
        }
        kani::cover!(r.is_ok() && !config_test && nl == 2 && nc == 2);
        kani::cover!(r.is_err());
    }
}
/// every stub future is immediately ready, so the task completes within one poll (cheaper than kani::block_on's loop)
pub fn run_ready<F: std::future::Future>(f: F) -> F::Output {
    let mut f = std::pin::pin!(f);
    let mut cx = std::task::Context::from_waker(std::task::Waker::noop());
    match f.as_mut().poll(&mut cx) { std::task::Poll::Ready(v) => v, std::task::Poll::Pending => panic!("stub future pending") }
}
fn main() {}
