#!/bin/sh
# offline setup: check tools, warm Verus (first run loads vstd)
set -e
cd "$(dirname "$0")"
command -v verus >/dev/null || { echo "verus missing"; exit 1; }
command -v python3 >/dev/null || { echo "python3 missing"; exit 1; }
mkdir -p evidence replay
d=$(mktemp -d)
cat > "$d/warm.rs" <<'EOF'
use vstd::prelude::*;
verus! { proof fn warm() ensures 1 + 1 == 2int {} }
fn main() {}
EOF
(cd "$d" && verus warm.rs >/dev/null 2>&1) || true
rm -rf "$d"
echo "setup ok"
