"""Run Verus on a generated unit file, parse results, map diagnostics back to /repo lines."""
import json
import os
import re
import subprocess
import time

from . import rustscan as rs

VERIF_KINDS = [
    (re.compile(r"possible arithmetic underflow/overflow"), "overflow"),
    (re.compile(r"possible bit shift underflow/overflow"), "shift"),
    (re.compile(r"possible division by zero"), "div0"),
    (re.compile(r"precondition not satisfied"), "callee-pre"),
    (re.compile(r"precondition not met: index in bounds"), "index"),
    (re.compile(r"postcondition not satisfied"), "post"),
    (re.compile(r"invariant not satisfied"), "invariant"),
    (re.compile(r"assertion failed"), "assert"),
    (re.compile(r"decreases not satisfied|could not prove termination|decreases.*not.*satisf"), "decreases"),
    (re.compile(r"unreachable|possible panic"), "panic"),
    (re.compile(r"recommendation not met"), None),  # never an error level
    (re.compile(r"possible truncation|cast.*may"), "overflow"),
    (re.compile(r"has_resolved|could not show.*resolved"), "resolve"),
]
RESOURCE_RE = re.compile(r"rlimit|Resource limit|resource limit|timed out|timeout", re.I)
PANIC_KINDS = {"overflow", "shift", "div0", "callee-pre", "panic", "index", "unwrap"}


class Diag:
    def __init__(self):
        self.kind = None
        self.message = ""
        self.gen_line = None
        self.repo = None  # (file, line)
        self.text = ""
        self.func = None
        self.callee = None
        self.callee_clause = ""
        self.rendered = ""
        self.post_clause = ""

    def obligation_name(self, unit):
        k = self.kind
        if k == "callee-pre" and self.callee:
            k = "callee-pre:" + self.callee
        loc = "%s:%s" % (self.repo[0], self.repo[1]) if self.repo else "sidecar"
        return "%s::%s::%s@%s" % (unit, self.func or "?", k, loc)

    def to_json(self, unit):
        return dict(obligation=self.obligation_name(unit), kind=self.kind, message=self.message,
                    function=self.func, repo_file=self.repo[0] if self.repo else None,
                    repo_line=self.repo[1] if self.repo else None, source_text=self.text.strip(),
                    callee=self.callee, failed_clause=(self.callee_clause or self.post_clause).strip(),
                    verifier_output=self.rendered)


class UnitResult:
    def __init__(self, unit):
        self.unit = unit
        self.ok = False
        self.undecided = None  # reason string
        self.diags = []  # verification failures
        self.functions = {}  # verus name suffix -> dict(success,time_ms,rlimit)
        self.verified = 0
        self.errors = 0
        self.smt_ms = 0
        self.wall_s = 0.0
        self.cmd = ""
        self.gen_path = None
        self.raw_compile_errors = []


def _enclosing_fn(gen_lines, line_idx):
    """name of the fn whose text precedes line_idx (0-based) most closely"""
    fn_re = re.compile(r"\bfn\s+([A-Za-z_]\w*)")
    impl_re = re.compile(r"^\s*impl\b(.*)\{\s*$")
    name = None
    k = line_idx
    while k >= 0:
        m = fn_re.search(gen_lines[k])
        if m and not gen_lines[k].lstrip().startswith("//"):
            name = m.group(1)
            break
        k -= 1
    if name is None:
        return None
    # find enclosing impl by indentation heuristic: walk up to a line starting with `impl` at column 0
    indent = len(gen_lines[k]) - len(gen_lines[k].lstrip())
    if indent > 0:
        j = k
        while j >= 0:
            l = gen_lines[j]
            if l.startswith("impl") or l.startswith("pub trait") or l.startswith("trait"):
                if l.startswith("impl"):
                    hdr = l
                    t = rs.impl_self_type(rs.norm_ws(hdr.split("{")[0]))
                    return "%s::%s" % (t, name)
                m2 = re.match(r"(?:pub )?trait\s+(\w+)", l)
                return "%s::%s" % (m2.group(1), name)
            if l.startswith("}"):
                break
            j -= 1
    return name


def run_verus(gen_path, gen_text, linemap, unit_name, fn_ranges, rlimit=None, threads=4, timeout=900, extra_args=()):
    """fn_ranges: list of (qual, relfile, line_start, line_end) for extracted functions"""
    res = UnitResult(unit_name)
    res.gen_path = gen_path
    cmd = ["verus", gen_path, "--output-json", "--time-expanded", "--error-format=json",
           "--multiple-errors", "25", "--num-threads", str(threads)]
    if rlimit:
        cmd += ["--rlimit", str(rlimit)]
    cmd += list(extra_args)
    res.cmd = " ".join(cmd)
    t0 = time.time()
    try:
        p = subprocess.run(cmd, capture_output=True, text=True, timeout=timeout, cwd=os.path.dirname(gen_path))
    except subprocess.TimeoutExpired:
        res.undecided = "verus timed out after %ds" % timeout
        res.wall_s = time.time() - t0
        return res
    res.wall_s = time.time() - t0
    gen_lines = gen_text.split("\n")
    try:
        out = json.loads(p.stdout)
    except Exception:
        out = None
    compile_errors = []
    resource = []
    for ln in p.stderr.split("\n"):
        ln = ln.strip()
        if not ln.startswith("{"):
            continue
        try:
            d = json.loads(ln)
        except Exception:
            continue
        if d.get("level") not in ("error",):
            continue
        msg = d.get("message", "")
        if msg.startswith("aborting due to"):
            continue
        kind = None
        matched = False
        for rx, k in VERIF_KINDS:
            if rx.search(msg):
                kind, matched = k, True
                break
        if RESOURCE_RE.search(msg) and not matched:
            resource.append(msg)
            continue
        if not matched or kind is None:
            compile_errors.append((msg, d.get("rendered", "")))
            continue
        dg = Diag()
        dg.kind = kind
        dg.message = msg
        dg.rendered = d.get("rendered", "")
        prim = [s for s in d.get("spans", []) if s.get("is_primary")]
        sec = [s for s in d.get("spans", []) if not s.get("is_primary")]
        base = os.path.basename(gen_path)
        span = prim[0] if prim else None
        macro_name = None
        if kind == "post":
            # locate the failure at the exit point of the function that broke the clause (matters for trait impls)
            for s_ in sec:
                lab = s_.get("label") or ""
                if ("end of the function body" in lab or "at this exit" in lab) and os.path.basename(s_["file_name"]) == base:
                    for s2 in d.get("spans", []):
                        if "failed this postcondition" in (s2.get("label") or "") or s2.get("is_primary"):
                            if s2.get("text"):
                                dg.post_clause = s2["text"][0]["text"]
                    span = s_
                    break
        if not (span and os.path.basename(span["file_name"]) == base):
            # primary span outside the generated file: use a secondary span inside it, or walk the macro expansion chain
            alt = [s_ for s_ in sec if os.path.basename(s_["file_name"]) == base]
            if alt:
                span = alt[0]
            elif span is not None:
                e = span.get("expansion")
                while e:
                    sp = e["span"]
                    macro_name = e.get("macro_decl_name") or macro_name
                    if os.path.basename(sp["file_name"]) == base:
                        span = sp
                    e = sp.get("expansion")
        # for post failures the primary span may sit on the function end; fine
        if span and os.path.basename(span["file_name"]) == base:
            dg.gen_line = span["line_start"]
            dg.text = span["text"][0]["text"] if span.get("text") else ""
            li = dg.gen_line - 1
            o = linemap[li] if li < len(linemap) else None
            dg.func = _enclosing_fn(gen_lines, li)
            k = li
            fn_re = re.compile(r"\bfn\s+[A-Za-z_]\w*")
            while o is None and k > 0 and not fn_re.search(gen_lines[k]):
                k -= 1
                o = linemap[k]
            dg.repo = o
            if o is not None:
                for qual, rel, a_, b_ in fn_ranges:
                    if rel == o[0] and a_ <= o[1] <= b_:
                        dg.func = qual
                        break
        for s in d.get("spans", []):
            lab = s.get("label") or ""
            if "failed precondition" in lab:
                if os.path.basename(s["file_name"]) == base:
                    dg.callee = _enclosing_fn(gen_lines, s["line_start"] - 1)
                else:
                    dg.callee = "vstd:" + os.path.basename(s["file_name"])
                dg.callee_clause = s["text"][0]["text"] if s.get("text") else ""
            if "failed this postcondition" in lab or "postcondition" in lab:
                dg.post_clause = s["text"][0]["text"] if s.get("text") else ""
        # refine kinds
        if dg.kind == "callee-pre" and macro_name and re.search(r"unreachable|panic|assert|unimplemented|todo", macro_name):
            dg.kind, dg.callee = "panic", None
        if dg.kind == "callee-pre":
            cal = dg.callee or ""
            if cal.startswith("vstd:"):
                t = dg.text
                if "unwrap" in t or "expect(" in t:
                    dg.kind, dg.callee = "unwrap", None
                elif "[" in t:
                    dg.kind, dg.callee = "index", None
            elif cal in ("vf_panic", "vf_unreachable", "vf_assert_fail"):
                dg.kind, dg.callee = "panic", None
        res.diags.append(dg)
    if out is not None:
        vr = out.get("verification-results", {})
        res.verified = vr.get("verified", 0)
        res.errors = vr.get("errors", 0)
        try:
            smt = out["times-ms"]["smt"]
            res.smt_ms = smt.get("smt-run", 0)
            for mod in smt.get("smt-run-module-times", []):
                for fb in mod.get("function-breakdown", []):
                    res.functions[fb["function"].split("::", 1)[1]] = dict(
                        success=fb["success"], time_ms=fb["time"], rlimit=fb["rlimit"], mode=fb.get("mode:", fb.get("mode")))
        except Exception:
            pass
        if vr.get("encountered-vir-error"):
            compile_errors.append(("vir error", ""))
    if compile_errors:
        res.raw_compile_errors = compile_errors
        res.undecided = "generated file does not compile under Verus: " + "; ".join(m for m, _ in compile_errors[:3])
    elif resource:
        res.undecided = "resource limit: " + resource[0]
    elif out is None:
        res.undecided = "no JSON from verus (rc=%s): %s" % (p.returncode, p.stderr[-400:])
    else:
        res.ok = (not res.diags) and vr.get("success", False)
        if not res.ok and not res.diags:
            res.undecided = "verus reported failure without a classified diagnostic: " + p.stderr[-400:]
    return res
