"""Small Rust-aware scanner: masks comments/strings, matches braces, lists items.

No third-party imports.  All offsets refer to the original text; `mask()` returns a
string of identical length in which the *contents* of comments, string / char / raw
string literals are replaced by blanks (newlines kept), so brace matching and regex
search can run on the masked text and be applied to the original one.
"""
import re


def mask(src: str) -> str:
    out = list(src)
    i, n = 0, len(src)

    def blank(a, b):
        for k in range(a, b):
            if out[k] != "\n":
                out[k] = " "

    while i < n:
        c = src[i]
        if c == "/" and i + 1 < n and src[i + 1] == "/":
            j = src.find("\n", i)
            j = n if j < 0 else j
            blank(i, j)
            i = j
        elif c == "/" and i + 1 < n and src[i + 1] == "*":
            depth, j = 1, i + 2
            while j < n and depth:
                if src.startswith("/*", j):
                    depth += 1
                    j += 2
                elif src.startswith("*/", j):
                    depth -= 1
                    j += 2
                else:
                    j += 1
            blank(i, j)
            i = j
        elif c == '"' or (c == "b" and i + 1 < n and src[i + 1] == '"' and not _ident_before(src, i)):
            s = i if c == '"' else i + 1
            j = s + 1
            while j < n and src[j] != '"':
                j += 2 if src[j] == "\\" else 1
            blank(s + 1, min(j, n))
            i = j + 1
        elif c == "r" and not _ident_before(src, i) and re.match(r'r#*"', src[i:i + 12]):
            m = re.match(r'r(#*)"', src[i:i + 12])
            hashes = m.group(1)
            end = src.find('"' + hashes, i + len(m.group(0)))
            end = n if end < 0 else end
            blank(i + len(m.group(0)), end)
            i = end + 1 + len(hashes)
        elif c == "'":
            # char literal or lifetime
            m = re.match(r"'(\\.[^']*|[^\\'])'", src[i:i + 12])
            if m:
                blank(i + 1, i + len(m.group(0)) - 1)
                i += len(m.group(0))
            else:
                i += 1
        else:
            i += 1
    return "".join(out)


def _ident_before(src, i):
    return i > 0 and (src[i - 1].isalnum() or src[i - 1] == "_")


OPEN = {"{": "}", "(": ")", "[": "]"}


def match_close(masked: str, i: int) -> int:
    """index of the bracket closing the one at masked[i]"""
    o = masked[i]
    c = OPEN[o]
    depth = 0
    for k in range(i, len(masked)):
        ch = masked[k]
        if ch == o:
            depth += 1
        elif ch == c:
            depth -= 1
            if depth == 0:
                return k
    raise ValueError("unbalanced %s at %d" % (o, i))


class Item:
    def __init__(self, kind, name, header, start, end, body_open, body_close, attr_start):
        self.kind, self.name, self.header = kind, name, header
        self.start, self.end = start, end  # item text without attributes: [start, end)
        self.body_open, self.body_close = body_open, body_close  # indices of { and } or None
        self.attr_start = attr_start  # start including attributes / doc comments

    def __repr__(self):
        return "Item(%s %s @%d-%d)" % (self.kind, self.name, self.start, self.end)


_KIND_RE = [
    ("fn", re.compile(r"\bfn\s+([A-Za-z_]\w*)")),
    ("struct", re.compile(r"\bstruct\s+([A-Za-z_]\w*)")),
    ("enum", re.compile(r"\benum\s+([A-Za-z_]\w*)")),
    ("trait", re.compile(r"\btrait\s+([A-Za-z_]\w*)")),
    ("mod", re.compile(r"\bmod\s+([A-Za-z_]\w*)")),
    ("const", re.compile(r"\bconst\s+([A-Za-z_]\w*)\s*:")),
    ("static", re.compile(r"\bstatic\s+(?:mut\s+)?([A-Za-z_]\w*)\s*:")),
    ("type", re.compile(r"\btype\s+([A-Za-z_]\w*)")),
    ("macro_rules", re.compile(r"\bmacro_rules!\s*([A-Za-z_]\w*)")),
    ("use", re.compile(r"\buse\b")),
]


def norm_ws(s: str) -> str:
    return re.sub(r"\s+", " ", s).strip()


def list_items(masked: str, start: int, end: int):
    """Items directly inside masked[start:end] (a file, or the inside of an impl/mod block)."""
    items = []
    i = start
    while i < end:
        # skip whitespace
        while i < end and masked[i].isspace():
            i += 1
        if i >= end:
            break
        attr_start = i
        # attributes
        while masked.startswith("#[", i) or masked.startswith("#![", i):
            j = masked.index("[", i)
            i = match_close(masked, j) + 1
            while i < end and masked[i].isspace():
                i += 1
        if i >= end:
            break
        item_start = i
        # scan to ';' or '{...}' at depth 0 of () and []
        k = i
        body_open = body_close = None
        while k < end:
            ch = masked[k]
            if ch in "([":
                k = match_close(masked, k) + 1
                continue
            if ch == "{":
                body_open = k
                body_close = match_close(masked, k)
                k = body_close + 1
                # `macro!{..};` or `struct X {..}` never needs trailing ';' except macros
                break
            if ch == ";":
                k += 1
                break
            k += 1
        item_end = k
        header = masked[item_start:(body_open if body_open is not None else item_end)]
        kind, name = "other", None
        if re.match(r"\s*(?:pub(?:\([^)]*\))?\s+)?(?:unsafe\s+)?impl\b", header):
            kind, name = "impl", norm_ws(re.sub(r"^\s*(?:pub(?:\([^)]*\))?\s+)?(?:unsafe\s+)?", "", header))
        else:
            best = None
            for kd, rx in _KIND_RE:
                m = rx.search(header)
                if m and (best is None or m.start() < best[2]):
                    best = (kd, m.group(1) if m.groups() else None, m.start())
            if best:
                kind, name = best[0], best[1]
        # a `= ...;` const/static/type with braces inside: body is not a block body
        if kind in ("const", "static", "type", "use") and body_open is not None:
            # extend to the terminating ';'
            semi = masked.find(";", body_close)
            if semi >= 0 and semi < end:
                item_end = semi + 1
            body_open = body_close = None
        if kind == "other" and body_open is not None:
            # macro invocation with braces may be followed by ';'
            pass
        items.append(Item(kind, name, header, item_start, item_end, body_open, body_close, attr_start))
        i = item_end
    return items


def impl_self_type(header_norm: str) -> str:
    """`impl<T: Buf> Iterator for MakeFragments<T> where ..` -> MakeFragments"""
    h = re.sub(r"\bwhere\b.*$", "", header_norm).strip()
    h = re.sub(r"^impl\s*", "", h)
    if h.startswith("<"):
        depth = 0
        for k, ch in enumerate(h):
            if ch == "<":
                depth += 1
            elif ch == ">" and h[k - 1] != "-":
                depth -= 1
                if depth == 0:
                    h = h[k + 1:].strip()
                    break
    if " for " in h:
        h = h.split(" for ", 1)[1].strip()
    m = re.match(r"(?:&\s*(?:mut\s+)?)?((?:\w+::)*)(\w+)", h)
    return m.group(2) if m else h


def fn_signature_parts(masked: str, it: Item):
    """For a fn item: returns dict with offsets: name_end, params_open, params_close, arrow (or None),
    ret_start, ret_end (or None), where_start (or None), body_open."""
    m = re.compile(r"\bfn\s+[A-Za-z_]\w*").search(masked, it.start, it.body_open if it.body_open else it.end)
    k = m.end()
    # generics
    while masked[k].isspace():
        k += 1
    if masked[k] == "<":
        depth = 0
        while True:
            ch = masked[k]
            if ch == "<":
                depth += 1
            elif ch == ">" and masked[k - 1] != "-":
                depth -= 1
                if depth == 0:
                    k += 1
                    break
            k += 1
    while masked[k] != "(":
        k += 1
    popen = k
    pclose = match_close(masked, k)
    stop = it.body_open if it.body_open is not None else it.end - 1
    seg = masked[pclose + 1:stop]
    arrow = ret_start = ret_end = where_start = None
    am = re.search(r"->", seg)
    wm = re.search(r"\bwhere\b", seg)
    if wm:
        where_start = pclose + 1 + wm.start()
    if am and (not wm or am.start() < wm.start()):
        arrow = pclose + 1 + am.start()
        ret_start = arrow + 2
        ret_end = where_start if where_start is not None else stop
        # trim trailing whitespace
        while ret_end > ret_start and masked[ret_end - 1].isspace():
            ret_end -= 1
        while ret_start < ret_end and masked[ret_start].isspace():
            ret_start += 1
    return dict(name_end=m.end(), params_open=popen, params_close=pclose, arrow=arrow,
                ret_start=ret_start, ret_end=ret_end, where_start=where_start, body_open=it.body_open)


_LOOP_RE = re.compile(r"\b(while|loop|for)\b")


def find_loops(masked: str, body_open: int, body_close: int):
    """(keyword, kw_index, brace_index) for each loop inside a fn body, textual order."""
    res = []
    for m in _LOOP_RE.finditer(masked, body_open, body_close):
        kw = m.group(1)
        # `for<'a>` HRTB or `impl X for Y` cannot occur in a body at statement position; accept
        k = m.end()
        if kw == "for":
            # must look like `for pat in expr {`
            nxt = masked[k:k + 200]
            if not re.match(r"\s+[^;{]*?\bin\b", nxt):
                continue
        # find the body brace: first '{' at () / [] depth 0
        b = None
        while k < body_close:
            ch = masked[k]
            if ch in "([":
                k = match_close(masked, k) + 1
                continue
            if ch == "{":
                b = k
                break
            if ch == ";":
                break
            k += 1
        if b is not None:
            res.append((kw, m.start(), b))
    return res
