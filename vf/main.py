"""./check <Cxx> [--tier quick|thorough] [--replay <file>]

exit 0  every obligation mapped to the property is discharged (known findings excepted)
exit 1  VIOLATION property=<id> replay=<path>   (one line per failed obligation not listed in known_findings.json)
exit 2  UNDECIDED (lost anchor, unsupported construct, resource limit, tool missing) -- never an alarm
"""
import concurrent.futures as cf
import json
import os
import re
import shutil
import sys
import tempfile
import time
import traceback

from . import extract, kani_run, registry, unit as unitmod, verus_run

VERIF = unitmod.VERIF
# selftest runs redirect their output so that committed evidence always comes from /repo itself
EVID_DIR = os.environ.get("VERIF_EVID_DIR") or os.path.join(VERIF, "evidence")
REPLAY_DIR = os.environ.get("VERIF_REPLAY_DIR") or os.path.join(VERIF, "replay")
KNOWN = os.path.join(VERIF, "known_findings.json")


def load_known():
    if os.path.exists(KNOWN):
        return json.load(open(KNOWN))
    return {"known": [], "fixed": []}


def fn_tags(unit, qual, extracted):
    if qual in extracted:
        d = dict(unit.get("default_props", {}))
        d.update(unit.get("functions", {}).get(qual, {}))
        props = set(d.get("props", []))
        panic = set(d.get("panic_props", d.get("props", [])))
        return props, panic
    # sidecar / shim lemma or spec fn
    lp = set(unit.get("lemma_props", unit.get("default_props", {}).get("props", [])))
    lp |= set(unit.get("functions", {}).get(qual, {}).get("props", []))
    return lp, lp


def diag_relevant(unit, d, prop, extracted):
    # any failed obligation of a function mapped to the property counts: a broken postcondition of a callee is what
    # the panic-freedom (or the postcondition) of its callers was proved from
    props, panic = fn_tags(unit, d.func, extracted)
    return prop in (props | panic)


def known_match(known, prop, unit_name, d):
    for k in known.get("known", []):
        kp = k.get("property")
        if prop not in (kp if isinstance(kp, list) else [kp]):
            continue
        if k.get("unit") and k["unit"] != unit_name:
            continue
        if k.get("function") and k["function"] != d.func:
            continue
        if k.get("kind") and k["kind"] != d.kind:
            continue
        cmp_text = d.post_clause if (d.kind == "post" and d.post_clause) else d.text
        if k.get("source_text") and extract.rs.norm_ws(k["source_text"]) != extract.rs.norm_ws(cmp_text):
            continue
        return k
    return None


def insert_vacuity(text):
    """mutate generated text: first statement of every extracted fn body becomes assert(false)"""
    return text


def run_verus_unit(name, workdir, tier):
    """main pass + vacuity pass (assert(false) as first statement of each extracted function must FAIL)"""
    out = {"name": name}
    try:
        unit, g, res = unitmod.run_unit(name, workdir, threads=4)
        out.update(unit=unit, gen=g, res=res)
    except extract.Undecided as e:
        out["undecided"] = str(e)
        return out
    except Exception as e:  # framework bug: undecided, never an alarm
        out["undecided"] = "framework error: %s\n%s" % (e, traceback.format_exc())
        return out
    # thorough: proof stability -- the same file under two more Z3 seeds and half the default rlimit; an obligation that
    # flips is reported as UNSTABLE (exit 2), never as a violation
    if tier == "thorough" and not res.undecided and not res.diags:
        unstable = []
        for extra in (["--smt-option", "smt.random_seed=%d" % (7 + int(os.environ.get("VERIF_SEED", "0") or 0))],
                      ["--smt-option", "smt.random_seed=1234567"],
                      ["--rlimit", "5"]):
            r3 = verus_run.run_verus(res.gen_path, g.text, g.linemap, name, g.fn_ranges, rlimit=None if "--rlimit" in extra else unit.get("rlimit"),
                                     threads=4, extra_args=list(unit.get("verus_args", [])) + extra)
            if r3.undecided or r3.diags:
                unstable.append("%s -> %s" % (" ".join(extra), r3.undecided or "; ".join(d.obligation_name(name) for d in r3.diags[:3])))
        out["stability"] = dict(variants=3, unstable=unstable)
    # vacuity pass
    try:
        u2 = dict(unit)
        u2["_vacuity"] = True
        g2 = unitmod.generate(u2)
        path = os.path.join(workdir, name + "_vacuity.rs")
        open(path, "w").write(g2.text)
        r2 = verus_run.run_verus(path, g2.text, g2.linemap, name, g2.fn_ranges, rlimit=unit.get("rlimit"),
                                 threads=4, extra_args=unit.get("verus_args", []))
        reached = set()
        for d in r2.diags:
            if d.kind == "assert" and "vf_vacuity_probe" in d.text:
                m = re.search(r'vf_vacuity_probe\("([^"]+)"\)', d.text)
                if m:
                    reached.add(m.group(1))
        expected = set(g2.vacuity_probes)
        out["vacuity"] = dict(expected=sorted(expected), reached=sorted(reached),
                              unreached=sorted(expected - reached), undecided=r2.undecided,
                              canary_failed=any(d.func == "vf_canary" for d in r2.diags))
    except extract.Undecided as e:
        out["vacuity"] = dict(undecided=str(e), expected=[], reached=[], unreached=[], canary_failed=False)
    return out


def write_replay(prop, idx, unit_name, d, res, extra=None):
    os.makedirs(REPLAY_DIR, exist_ok=True)
    safe = re.sub(r"[^A-Za-z0-9_.-]+", "_", d.obligation_name(unit_name))[:150]
    path = os.path.join(REPLAY_DIR, "%s-%s.json" % (prop, safe))
    body = d.to_json(unit_name)
    body.update(property=prop, unit=unit_name, engine="verus/z3", checker_cmd=res.cmd if res else "",
                counterexample=None,
                note="Verus gives no counterexample; the obligation named here was discharged on the reference tree and fails now")
    if extra:
        body.update(extra)
    json.dump(body, open(path, "w"), indent=1)
    return path


def do_replay(prop, path):
    """re-run exactly the unit / harness named in a replay file against /repo's current tree and report whether the
    named obligation still fails (exit 1 + VIOLATION) or is discharged now (exit 0)"""
    try:
        rp = json.load(open(path))
    except Exception as e:
        print("UNDECIDED cannot read replay file %s: %s" % (path, e))
        return 2
    wd = tempfile.mkdtemp(prefix="vf_replay_")
    try:
        if rp.get("engine", "").startswith("kani"):
            r = kani_run.run_kani_unit(rp["unit"], wd, "thorough", prop)
            hs = [h for h in r.get("harnesses", []) if h["name"] == rp.get("harness")]
            if r.get("undecided") and not hs:
                print("UNDECIDED %s" % r["undecided"])
                return 2
            if hs and hs[0]["status"] == "FAILED":
                print("  still failing: kani %s::%s: %s" % (rp["unit"], rp["harness"], "; ".join(x["description"] for x in hs[0].get("failed", [])[:3])))
                print("VIOLATION property=%s replay=%s%s" % (prop, path, "" if hs[0].get("counterexample") else " no-failing-input-found"))
                return 1
            print("OK replay: harness %s passes on the current tree" % rp.get("harness"))
            return 0
        out = run_verus_unit(rp["unit"], wd, "quick")
        if "undecided" in out or out["res"].undecided:
            print("UNDECIDED %s" % (out.get("undecided") or out["res"].undecided))
            return 2
        want = (rp.get("function"), rp.get("kind"), extract.rs.norm_ws(rp.get("failed_clause") or rp.get("source_text") or ""))
        for d in out["res"].diags:
            have = (d.func, d.kind, extract.rs.norm_ws((d.callee_clause or d.post_clause or d.text) or ""))
            if have[0] == want[0] and have[1] == want[1] and (not want[2] or want[2] == have[2] or want[2] in extract.rs.norm_ws(d.text)):
                print("  still failing: %s | %s" % (d.obligation_name(rp["unit"]), d.text.strip()))
                print("VIOLATION property=%s replay=%s no-failing-input-found" % (prop, path))
                return 1
        print("OK replay: obligation %s is discharged on the current tree" % rp.get("obligation"))
        return 0
    finally:
        shutil.rmtree(wd, ignore_errors=True)


def main(argv):
    if len(argv) < 1:
        print(__doc__)
        return 2
    prop = argv[0]
    tier = os.environ.get("VERIF_TIER", "quick")
    replay = None
    i = 1
    while i < len(argv):
        if argv[i] == "--tier":
            tier = argv[i + 1]
            i += 2
        elif argv[i] == "--replay":
            replay = argv[i + 1]
            i += 2
        else:
            i += 1
    seed = int(os.environ.get("VERIF_SEED", "0") or 0)
    if replay:
        return do_replay(prop, replay)
    if prop not in registry.PROPS:
        print("UNDECIDED property=%s not claimed (see MANIFEST not_applicable)" % prop)
        return 2
    P = registry.PROPS[prop]
    t0 = time.time()
    wd = tempfile.mkdtemp(prefix="vf_%s_" % prop)
    known = load_known()
    violations, known_hits, undecided = [], [], []
    unit_reports = []
    bounded = []
    try:
        verus_units = P.get("verus_units", [])
        kani_units = list(P.get("kani_units", []))
        if tier == "thorough":
            kani_units += P.get("kani_units_thorough", [])
        futures = {}
        with cf.ThreadPoolExecutor(max_workers=max(1, min(6, len(verus_units) + len(kani_units)))) as ex:
            for u in verus_units:
                futures[ex.submit(run_verus_unit, u, wd, tier)] = ("verus", u)
            for k in kani_units:
                futures[ex.submit(kani_run.run_kani_unit, k, wd, tier, prop)] = ("kani", k)
            results = {}
            for f in cf.as_completed(futures):
                results[futures[f]] = f.result()
        # ---- Verus units
        n_oblig = n_disch = n_known_failing = 0
        smt_ms = 0
        fns_under_contract = []
        transforms = set()
        samples = []
        trusted = set()
        checker_cmds = []
        vacuity_report = []
        stability_report = []
        for u in verus_units:
            r = results[("verus", u)]
            if "undecided" in r:
                undecided.append("%s: %s" % (u, r["undecided"]))
                continue
            unit, g, res = r["unit"], r["gen"], r["res"]
            extracted = {f["name"] for f in g.functions}
            if res.undecided:
                undecided.append("%s: %s" % (u, res.undecided))
                continue
            checker_cmds.append(re.sub(r"/tmp/\S+/", "<workdir>/", res.cmd))
            transforms |= set(g.transforms)
            trusted |= set("shim:" + s for s in unit.get("shims", []))
            smt_ms += res.smt_ms
            # functions whose only failures are listed known findings are reported separately, not as obligations
            kf_funcs = set()
            for d in res.diags:
                if d.func != "vf_canary" and diag_relevant(unit, d, prop, extracted) and known_match(known, prop, u, d):
                    kf_funcs.add(d.func)
            for d in res.diags:
                if d.func in kf_funcs and diag_relevant(unit, d, prop, extracted) and not known_match(known, prop, u, d):
                    kf_funcs.discard(d.func)
            # obligations = Verus verification items (functions, lemmas) mapped to this property
            vmap = {}
            for f_ in g.functions:
                vmap.setdefault(f_.get("verus_name", f_["name"]), f_["name"])
            for vname, info in sorted(res.functions.items()):
                qual = vmap.get(vname, vname)
                props, panic = fn_tags(unit, qual, extracted)
                if prop not in (props | panic):
                    continue
                if qual in kf_funcs or ("::" in qual and qual.split("::")[-1] in kf_funcs):
                    n_known_failing += 1
                    continue
                n_oblig += 1
                if info["success"]:
                    n_disch += 1
                if qual in extracted:
                    f = [x for x in g.functions if x["name"] == qual][0]
                    fns_under_contract.append(dict(name=qual, file=f["file"], lines=[f["line_start"], f["line_end"]],
                                                   sha256=f["sha256"], backend="verus/z3", smt_ms=info["time_ms"],
                                                   rlimit=info["rlimit"], discharged=bool(info["success"]),
                                                   contract=(qual in r["gen"].contracted)))
                if len(samples) < 6:
                    samples.append(dict(obligation="%s::%s" % (u, qual), discharged=bool(info["success"]),
                                        backend="verus/z3", smt_ms=info["time_ms"]))
            lost = {}
            for q, a in getattr(g, "lost_hints", []):
                lost.setdefault(q, []).append(a)
            for d in res.diags:
                if d.func == "vf_canary":
                    continue
                if not diag_relevant(unit, d, prop, extracted):
                    continue
                if d.func in lost:
                    undecided.append("%s: proof hint anchor `%s` in %s no longer exists and %s fails: cannot tell a refactoring from a defect"
                                     % (u, lost[d.func][0], d.func, d.obligation_name(u)))
                    continue
                k = known_match(known, prop, u, d)
                if k:
                    known_hits.append((k, d, u))
                else:
                    violations.append((u, d, res))
            st = r.get("stability")
            if st:
                stability_report.append(dict(unit=u, variants=st["variants"], unstable=st["unstable"]))
                if st["unstable"]:
                    undecided.append("%s: unstable proof (passes with the default solver settings, fails under %s)" % (u, st["unstable"][0]))
            v = r.get("vacuity")
            if v:
                vacuity_report.append(dict(unit=u, probes=len(v["expected"]), reached=len(v["reached"]),
                                           unreached=v["unreached"], canary_failed=v["canary_failed"]))
                if v.get("undecided"):
                    undecided.append("%s vacuity pass: %s" % (u, v["undecided"]))
                elif v["unreached"]:
                    undecided.append("%s: vacuous contract (precondition unsatisfiable or body unreachable) for %s" % (u, v["unreached"]))
                elif not v["canary_failed"]:
                    undecided.append("%s: must-fail canary was accepted: axioms inconsistent or verifier not running" % u)
        # ---- Kani units
        kani_viol = []
        kani_report = []
        for k in kani_units:
            r = results[("kani", k)]
            if r.get("undecided"):
                undecided.append("kani %s: %s" % (k, r["undecided"]))
                continue
            checker_cmds.append(r.get("cmd", ""))
            kani_report.append(dict(unit=k, function_text_extracted_from=r.get("extracted", []),
                                    transformations=r.get("transformations", []),
                                    harnesses=[dict(name=h["name"], status=h["status"], wall_s=h.get("wall_s"), covers=h.get("covers"), from_cache=bool(h.get("from_cache"))) for h in r["harnesses"]]))
            trusted.add("kani stub environment: kani/%s/src/main.rs" % k)
            # the items whose verbatim text the stub crate compiles are "under contract" too: their obligations are the
            # harness assertions (callee contracts = the stubs); listed so that the evidence names every function checked
            all_ok = all(h["status"] == "SUCCESSFUL" for h in r["harnesses"])
            all_complete = all(h.get("complete") for h in r["harnesses"])
            for it in r.get("extracted", []):
                fns_under_contract.append(dict(name="%s (kani unit %s)" % (it.get("item"), k), file=it.get("file"), lines=[it.get("line"), it.get("line")],
                                               backend="kani/cbmc", discharged=bool(all_ok), contract=True,
                                               bounded=not all_complete))
            for h in r["harnesses"]:
                entry = dict(name="%s::%s" % (k, h["name"]), bound=h.get("bound", ""), result=h["status"],
                             backend="kani/cbmc", wall_s=h.get("wall_s"), complete=h.get("complete", False),
                             checks=h.get("checks"), from_cache=bool(h.get("from_cache")))
                if h.get("complete"):
                    n_oblig += 1
                    if h["status"] == "SUCCESSFUL":
                        n_disch += 1
                    samples.append(dict(obligation=entry["name"], discharged=h["status"] == "SUCCESSFUL",
                                        backend="kani/cbmc (loop-free, full domain)"))
                else:
                    bounded.append(entry)
                if h["status"] == "FAILED":
                    kk = None
                    for kf in known.get("known", []):
                        if kf.get("property") == prop and kf.get("kani_harness") == entry["name"]:
                            kk = kf
                    if kk:
                        known_hits.append((kk, None, k))
                    else:
                        kani_viol.append((k, h, r))
        # ---- verdict
        rc = 0
        for k, d, u in known_hits:
            print("KNOWN-FINDING: property=%s %s" % (prop, k.get("what") or (d.obligation_name(u) if d else k)))
        if undecided:
            for msg in undecided:
                print("UNDECIDED property=%s %s" % (prop, msg))
            rc = 2
        nviol = 0
        for idx, (u, d, res) in enumerate(violations):
            path = write_replay(prop, idx, u, d, res)
            print("  failed obligation: %s\n    %s | %s%s" % (d.obligation_name(u), d.message, d.text.strip(),
                                                                (" | clause: " + d.post_clause.strip()) if d.post_clause else ""))
            print("VIOLATION property=%s replay=%s no-failing-input-found" % (prop, path))
            nviol += 1
        for k, h, r in kani_viol:
            os.makedirs(REPLAY_DIR, exist_ok=True)
            path = os.path.join(REPLAY_DIR, "%s-kani-%s-%s.json" % (prop, k, h["name"]))
            json.dump(dict(property=prop, unit=k, harness=h["name"], engine="kani/cbmc", failed_checks=h.get("failed", []),
                           counterexample=h.get("counterexample"), verifier_output=h.get("output_tail", ""),
                           checker_cmd=r.get("cmd")), open(path, "w"), indent=1)
            print("  failed obligation: kani %s::%s: %s" % (k, h["name"], "; ".join(x["description"] for x in h.get("failed", [])[:3])))
            tail = "" if h.get("counterexample") else " no-failing-input-found"
            print("VIOLATION property=%s replay=%s%s" % (prop, path, tail))
            nviol += 1
        if nviol:
            rc = 1
        # ---- evidence
        wall = time.time() - t0
        cov = dict(
            obligations=n_oblig, discharged=n_disch, obligations_failing_as_known_findings=n_known_failing,
            checker_cmd=" ; ".join(checker_cmds) or "none",
            trusted_base=sorted(trusted) + P.get("trusted", []),
            functions_under_contract=fns_under_contract,
            solver_ms=smt_ms,
            bounded_checks=bounded,
            kani_units=kani_report,
            transformations_applied=sorted(transforms),
            vacuity=vacuity_report,
            stability=stability_report,
            known_findings=[k.get("what", "") for k, _, _ in known_hits],
            undecided=undecided,
            samples=samples or [dict(note="no obligation generated")],
            rule="an obligation = one Verus verification item (extracted function with its contract, or lemma) mapped to this "
                 "property, or one loop-free full-domain Kani harness; bounded Kani stub-units are listed under bounded_checks "
                 "and never counted",
        )
        if P.get("level") == "model_checking":
            total_checks = 0
            n_asserts = 0
            for k in kani_units:
                r = results[("kani", k)]
                for h in r.get("harnesses", []):
                    if h.get("checks"):
                        total_checks += h["checks"].get("total", 0)
                try:
                    src = open(os.path.join(VERIF, "kani", k, "src", "main.rs")).read()
                    n_asserts += len(re.findall(r"\bassert!\(", src)) + len(re.findall(r"kani::cover!\(", src))
                except OSError:
                    pass
            cov["evaluations"] = max(total_checks, 1)
            cov["distinct_nontrivial"] = n_asserts
            cov["rule"] = ("evaluations = CBMC properties checked over the fully symbolic stub environment (all harnesses of this run); "
                           "distinct_nontrivial = user-written assert!/cover! obligations in the harness source (each is a distinct clause "
                           "of the property); Verus items are counted under obligations/discharged; " + cov["rule"])
            cov["exhaustive"] = False
        ev = dict(property_id=prop, tier=tier, seed=seed, level=P.get("level", "proof"), coverage=cov,
                  assumptions=P.get("assumptions", []), wall_s=round(wall, 2), violations=nviol)
        os.makedirs(EVID_DIR, exist_ok=True)
        json.dump(ev, open(os.path.join(EVID_DIR, prop + ".json"), "w"), indent=1)
        if rc == 0:
            print("OK property=%s obligations=%d discharged=%d bounded_checks=%d wall=%.1fs" % (prop, n_oblig, n_disch, len(bounded), wall))
            if (n_oblig == 0 and not bounded) or n_disch != n_oblig:
                print("UNDECIDED property=%s obligation count mismatch (%d/%d)" % (prop, n_disch, n_oblig))
                rc = 2
        return rc
    finally:
        shutil.rmtree(wd, ignore_errors=True)


if __name__ == "__main__":
    sys.exit(main(sys.argv[1:]))
