"""Property -> units.  `level` is the EVIDENCE level; bounded parts are reported separately."""

A_COMMON = [
    "A1: Verus 0.2026.09.13 / Z3 (and Kani 0.68 / CBMC 6.11 where used) are sound",
    "A2: dependency contracts in /verif/contracts/shims describe the real crates (external_body, not proved)",
    "A6: machine arithmetic modelled exactly; overflow is an obligation (dev profile: overflow-checks on, panic=abort)",
]

PROPS = {
    "C11": dict(
        level_text="Proof: every function of fragment.rs that splits or reassembles (div_ceil, MakeFragments::new/next, split_header, ReassembleQueue::new/add_fragment/assemble) is verified by Verus against contracts written from the property (header layout, ceil(len/(mtu-4)) <= 127 or refuse, duplicates/foreign/out-of-range fragments leave the queue unchanged, completion iff all pieces present, assemble = concatenation in sequence order), for all inputs, unbounded.",
        level_note="Trusted: bytes crate contracts (shims/bytes.rs), Verus/Z3. The HashMap<u16,_> id layer and the timer of Fragments::reassemble are outside the proved part (see evidence.bounded_checks / assumptions).",
        verus_units=["fragment"],
        level="proof",
        assumptions=A_COMMON + [
            "the HashMap<u16, ReassembleQueue> layer of Fragments::reassemble (Entry API) is checked for panic-freedom only",
        ],
        trusted=["bytes::Bytes/BytesMut/Buf contracts (shims/bytes.rs)"],
    ),
    "C03": dict(
        level_text="Proof (Verus, unbounded) that each address codec under contract is exact: the RPFM attribute codec (encode_address / decode_address / make_header / from_buffer) satisfies decode(encode(a)) == a for every representable address (lemma_addr_roundtrip, lemma_frame_roundtrip), decoders return exactly the bytes on the wire (strict UTF-8), and unrepresentable destinations must be refused (clause [B]; currently a KNOWN-FINDING for the RPFM header).",
        level_note="Trusted: bytes / String / std::net shims, Verus/Z3. Codecs not listed in evidence.functions_under_contract (HTTP CONNECT text line, numeric host:port re-parse) are not covered.",
        verus_units=["frames", "socks"],
        level="proof",
        assumptions=A_COMMON + ["A4: Strings are opaque UTF-8 byte sequences (string_bytes); number/IP Display formatting is trusted"],
        trusted=["bytes, String, std::net contracts (shims/bytes.rs, strings.rs, net.rs)"],
    ),
    "C10": dict(
        level_text="Proof (Verus, unbounded) of the frame-codec identity on (payload, session id, address label) for the stream transport: StreamFrameWriter::write emits header_image ++ body under the writer's session id and flushes; Frame::from_buffer / StreamFrameReader::read return exactly that frame (lemma_frame_roundtrip). Session concurrency, quic_frames_thread dispatch and socket plumbing are outside the proved part.",
        level_note="Partial: codec identity only. Trusted: bytes/tokio io shims, Verus/Z3.",
        verus_units=["frames"],
        level="proof",
        assumptions=A_COMMON + ["A3: tokio read/write_all/flush behave as documented; A7: futures are driven to completion (await-stripping)"],
        trusted=["bytes, tokio AsyncRead/AsyncWrite contracts (shims/bytes.rs, io.rs)"],
    ),
    "C12": dict(
        level_text="Proof (Verus, unbounded): StreamFrameReader::read is verified against a ghost byte stream (read-ahead buffer ++ socket input) with AsyncRead::read returning ANY 1..n bytes per call; loop invariant: the logical stream is unchanged until a frame is returned; postcondition: the returned frame is frame_parse of the first complete frame of the stream and exactly its bytes are consumed; Ok(None) only at end of input with no complete frame left. Termination is proved (decreases on remaining input).",
        level_note="Trusted: AsyncRead::read contract (A3), bytes shims, Verus/Z3.",
        verus_units=["frames", "socks"],
        level="proof",
        assumptions=A_COMMON + ["A3: tokio AsyncReadExt::read returns between 1 and min(buf.len, available) bytes, 0 only at end of input"],
        trusted=["bytes, tokio AsyncRead contracts (shims/bytes.rs, io.rs)"],
    ),
    "C05": dict(
        _x=0,
        level_text="Proof of panic-freedom (no overflow trap, shift overflow, out-of-bounds index, unwrap on None/Err, division by zero, dependency precondition such as Bytes::split_to) for every peer-fed decoder function listed in evidence.functions_under_contract, for all inputs. The 'wedge/liveness' half of the property is not claimed.",
        level_note="Trusted: dependency contracts (shims), Verus/Z3; functions not listed in the evidence are not covered.",
        verus_units=["fragment", "frames", "socks"],
        level="proof",
        assumptions=A_COMMON,
        trusted=["bytes::Bytes/BytesMut/Buf contracts (shims/bytes.rs)"],
    ),
}


NOT_APPLICABLE = {
    "C01": "two-direction relay over tokio select!/AsyncFd/splice(2), quantified over schedules and segmentations: no per-call contract expresses it and neither Verus (no async/select/FFI) nor Kani (no reactor, heap-backed streams diverge) reaches copy_half/copy_bidi",
    "C04": "ordering of close events against in-flight data across two concurrently polled halves (select!, splice, 1 s ticker) is a schedule/fault-sequence property outside pre/postconditions on one call",
    "C09": "parser is a tower of nom combinator closures generated by macros; string-to-tree precedence relation has no per-function contract; Verus cannot parse the closures and Kani ICEs on nom/memchr intrinsics",
    "C14": "deadlock/latency property of three tasks contending for Mutex<HashMap> and per-connection RwLocks: liveness under concurrency, outside contract-based verification with the installed tools",
    "C16": "exactly-once accounting is an invariant over whole histories of concurrently created/dropped Arc<RwLock<Context>>, a Drop impl and a spawned collector loop; not a property of one call",
    "C19": "recovery within bounded attempts quantifies over fault sequences in time and quinn's connection state machine; no contract available here can decide it",
}
for _k in ["C02", "C06", "C07", "C08", "C13", "C15", "C17", "C18"]:
    NOT_APPLICABLE.setdefault(_k, "not built yet (planned in DESIGN.md; unit under construction)")
