"""Property -> units.  `level` is the EVIDENCE level; bounded parts are reported separately."""

A_COMMON = [
    "A1: Verus 0.2026.09.13 / Z3 (and Kani 0.68 / CBMC 6.11 where used) are sound",
    "A2: dependency contracts in /verif/contracts/shims describe the real crates (external_body, not proved)",
    "A6: machine arithmetic modelled exactly; overflow is an obligation (dev profile: overflow-checks on, panic=abort)",
]

PROPS = {
    "C11": dict(
        level_text="Proof: every function of fragment.rs that splits or reassembles (div_ceil, MakeFragments::new/next, split_header, ReassembleQueue::new/add_fragment/assemble) is verified by Verus against contracts written from the property (header layout, ceil(len/(mtu-4)) <= 127 or refuse, duplicates/foreign/out-of-range fragments leave the queue unchanged, completion iff all pieces present, assemble = concatenation in sequence order), for all inputs, unbounded.",
        level_note="Trusted: bytes crate contracts (shims/bytes.rs), Verus/Z3. The HashMap<u16,_> id layer and the timer of Fragments::reassemble are outside the proved part (see evidence.bounded_checks / assumptions).",
        verus_units=["fragment"],
        level="proof",
        assumptions=A_COMMON + [
            "the HashMap<u16, ReassembleQueue> layer of Fragments::reassemble (Entry API) is checked for panic-freedom only",
        ],
        trusted=["bytes::Bytes/BytesMut/Buf contracts (shims/bytes.rs)"],
    ),
    "C03": dict(
        level_text="Proof (Verus, unbounded) that each address codec under contract is exact: the RPFM attribute codec (encode_address / decode_address / make_header / from_buffer) satisfies decode(encode(a)) == a for every representable address (lemma_addr_roundtrip, lemma_frame_roundtrip), decoders return exactly the bytes on the wire (strict UTF-8), and unrepresentable destinations must be refused (clause [B]; currently a KNOWN-FINDING for the RPFM header).",
        level_note="Trusted: bytes / String / std::net shims, Verus/Z3. Codecs not listed in evidence.functions_under_contract (HTTP CONNECT text line, numeric host:port re-parse) are not covered.",
        verus_units=["frames", "socks"],
        level="proof",
        assumptions=A_COMMON + ["A4: Strings are opaque UTF-8 byte sequences (string_bytes); number/IP Display formatting is trusted"],
        trusted=["bytes, String, std::net contracts (shims/bytes.rs, strings.rs, net.rs)"],
    ),
    "C10": dict(
        level_text="Proof (Verus, unbounded) of the frame-codec identity on (payload, session id, address label) for the stream transport: StreamFrameWriter::write emits header_image ++ body under the writer's session id and flushes; Frame::from_buffer / StreamFrameReader::read return exactly that frame (lemma_frame_roundtrip). Session concurrency, quic_frames_thread dispatch and socket plumbing are outside the proved part.",
        level_note="Partial: codec identity only. Trusted: bytes/tokio io shims, Verus/Z3.",
        verus_units=["frames"],
        level="proof",
        assumptions=A_COMMON + ["A3: tokio read/write_all/flush behave as documented; A7: futures are driven to completion (await-stripping)"],
        trusted=["bytes, tokio AsyncRead/AsyncWrite contracts (shims/bytes.rs, io.rs)"],
    ),
    "C12": dict(
        level_text="Proof (Verus, unbounded): StreamFrameReader::read is verified against a ghost byte stream (read-ahead buffer ++ socket input) with AsyncRead::read returning ANY 1..n bytes per call; loop invariant: the logical stream is unchanged until a frame is returned; postcondition: the returned frame is frame_parse of the first complete frame of the stream and exactly its bytes are consumed; Ok(None) only at end of input with no complete frame left. Termination is proved (decreases on remaining input).",
        level_note="Trusted: AsyncRead::read contract (A3), bytes shims, Verus/Z3.",
        verus_units=["frames", "socks"],
        level="proof",
        assumptions=A_COMMON + ["A3: tokio AsyncReadExt::read returns between 1 and min(buf.len, available) bytes, 0 only at end of input"],
        trusted=["bytes, tokio AsyncRead contracts (shims/bytes.rs, io.rs)"],
    ),
    "C06": dict(
        level_text="Proof (Verus, unbounded) for the SOCKS reply codec: SocksResponse::write_v4 emits 90 iff cmd == 0 and all 8 bytes; write_v5 emits [5, cmd, 0] ++ address; write_to flushes; read_v4 reports cmd == 0 iff the upstream said 90 (lemma_v4_reply_roundtrip); read_v5 returns the upstream's code unchanged. The 'iff upstream established' ordering inside process_request is decided by the Kani stub-unit where present (bounded, listed under bounded_checks).",
        level_note="Partial: reply writers/readers are proofs; HTTP reply writers and the process_request event order are only covered where evidence lists them. Trusted: RW shim (tokio io), Verus/Z3.",
        verus_units=["socks"],
        level="proof",
        assumptions=A_COMMON + ["A3 tokio io contracts", "A7 await-stripping", "A9 copy_bidi takes the client stream before relaying (not checked)"],
        trusted=["tokio io (shims/rw.rs)"],
    ),
    "C07": dict(
        level_text="Proof (Verus, unbounded) of the credential gate functions: PasswordAuth::select_method never selects NONE when credentials are required, only selects offered methods, independent of offer order; AuthData::check is false for a missing credential when required and otherwise equals (listed user OR external command accepted); the v5 sub-negotiation reader returns exactly the length-prefixed user/pass bytes.",
        level_note="Partial: cache expiry, the listener gate around check(), and TLS/QUIC client-certificate wiring are NOT covered (see assumptions). Trusted: auth_cmd shim, users_contains closure shim, Verus/Z3.",
        verus_units=["auth", "socks"],
        level="proof",
        assumptions=A_COMMON + ["auth_cmd (external command + verdict cache) is a shim returning an arbitrary bool; cache expiry (tokio::spawn + sleep) not modelled",
                                "TLS client-certificate policy (rustls) and QUIC listener crypto wiring not covered",
                                "the call site listeners/socks.rs that must stop on check()==false is not under contract"],
        trusted=["shims/auth_env.rs, shims/rw.rs"],
    ),
    "C13": dict(
        level_text="Proof (Verus, unbounded) of the idle-threshold arithmetic: ContextStatistics::is_timeout is false for period 0 and otherwise equals (now - last_read > period) over unbounded integers with no trap for ANY clock reading (including a clock stepping backwards) and no truncation of the period; incr_sent_bytes/frames store a clock reading really taken (lemma_no_early_close, lemma_close_when_idle).",
        level_note="Partial: the 1 s ticker/select loop in copy_bidi and the start-up wiring of timeouts.idle into the registry are not covered by this unit. Trusted: atomics/time shim (A5).",
        verus_units=["timeouts"],
        level="proof",
        assumptions=A_COMMON + ["A5: SystemTime::now is an arbitrary reading; atomics are sequential cells (Relaxed ordering not analysed)",
                                "ticker in copy_bidi (select!) and config->registry wiring not covered"],
        trusted=["shims/std_misc.rs"],
    ),
    "C17": dict(
        level_text="Proof (Verus, unbounded): round_robin returns connectors[ticket % n] with fetch_add handing out consecutive tickets; lemma rr_fair: every residue occurs exactly k times in any k*n consecutive tickets (no-wrap precondition); hash_by returns connectors[H(key) % n] with H a function of the key value (lemma sticky); random returns a member; verify() establishes non-empty membership of existing connectors, which discharges every unwrap and modulo in the selectors.",
        level_note="Trusted: atomics (linearizable fetch_add), DefaultHasher functional model, rand::choose contract, registry shims for dyn Connector. The connect() dispatch and 'member recorded == member used' are outside the proved part; random's non-zero frequency is rand's.",
        verus_units=["loadbalance"],
        level="proof",
        assumptions=A_COMMON + ["A5 atomics/hasher/rand contracts", "A10 call order init -> verify -> connect", "rr_fair requires c + k*n <= usize::MAX (no wrap)"],
        trusted=["shims/std_misc.rs, lb_env.rs, registry_env.rs"],
    ),
    "C18": dict(
        level_text="Proof (Verus, unbounded) of panic-freedom of the configuration dispatch for ANY serde_yaml::Value: connectors::from_value/from_config, listeners::from_value/from_config (requires true), and LoadBalanceConnector::verify/init (a balancer listing itself is rejected); every rule-language signature() body (check time, reached by posting a rule list) is panic-free for any argument list.",
        level_note="Partial: serde/serde_yaml deserialisation, clap, rustls PEM loading, axum start-up and balancer cycles longer than one are not covered. Trusted: yaml/registry shims, per-kind from_value shims.",
        verus_units=["config_dispatch", "loadbalance", "milu_int", "milu_cmp", "milu_access", "milu_str", "milu_ext"],
        level="proof",
        assumptions=A_COMMON + ["per-kind from_value (serde) returns an arbitrary Result", "cycles through several load balancers are not detected by verify() (documented gap)"],
        trusted=["shims/yaml.rs, registry_env.rs, config_env.rs"],
    ),
    "C08": dict(
        level_text="Proof (Verus, unbounded) per builtin of the rule language, on bodies taken from the compiler's own macro expansion on every run: for ALL i64 operands the integer operators never trap (overflow, division by zero, i64::MIN/-1, over-wide or negative shift) and return exactly the mathematical/bitwise result or Err; the comparison operators are total (no panic for any operand pair) and ordered as documented; Vec<Value>::get / Index / tuple Access are bounds-checked for every index at check time and at run time; If/Not/And/Or/Xor/IsMemberOf/ToString/ToInteger/Split/StringConcat/Like return the declared type; Accessible::type_of agrees with Accessible::get for request.source/target attributes.",
        level_note="Partial: the induction over all expression trees that composes the per-builtin contracts into 'accepted => never a type error' is NOT mechanised (Value::type_of/value_of are uninterpreted: the stated induction hypothesis); Scope/let, Call dispatch and the parser are not covered. Trusted: shims/milu.rs, milu_ext.rs, rustc macro expansion (T11).",
        verus_units=["milu_int", "milu_cmp", "milu_access", "milu_str", "milu_ext"],
        level="proof",
        assumptions=A_COMMON + ["induction hypothesis: evaluating a sub-expression yields a value of the type its type_of reported (uninterpreted spec functions)",
                                "T11: -Zunpretty=expanded output is the expansion that is compiled; reported line numbers of macro-generated bodies refer to the expansion",
                                "Error values are abstracted to a unit: which dynamic error is returned is not distinguished"],
        trusted=["shims/milu.rs, shims/milu_ext.rs"],
    ),
    "C05": dict(
        _x=0,
        level_text="Proof of panic-freedom (no overflow trap, shift overflow, out-of-bounds index, unwrap on None/Err, division by zero, dependency precondition such as Bytes::split_to) for every peer-fed decoder function listed in evidence.functions_under_contract, for all inputs. The 'wedge/liveness' half of the property is not claimed.",
        level_note="Trusted: dependency contracts (shims), Verus/Z3; functions not listed in the evidence are not covered.",
        verus_units=["fragment", "frames", "socks"],
        level="proof",
        assumptions=A_COMMON,
        trusted=["bytes::Bytes/BytesMut/Buf contracts (shims/bytes.rs)"],
    ),
}


NOT_APPLICABLE = {
    "C01": "two-direction relay over tokio select!/AsyncFd/splice(2), quantified over schedules and segmentations: no per-call contract expresses it and neither Verus (no async/select/FFI) nor Kani (no reactor, heap-backed streams diverge) reaches copy_half/copy_bidi",
    "C04": "ordering of close events against in-flight data across two concurrently polled halves (select!, splice, 1 s ticker) is a schedule/fault-sequence property outside pre/postconditions on one call",
    "C09": "parser is a tower of nom combinator closures generated by macros; string-to-tree precedence relation has no per-function contract; Verus cannot parse the closures and Kani ICEs on nom/memchr intrinsics",
    "C14": "deadlock/latency property of three tasks contending for Mutex<HashMap> and per-connection RwLocks: liveness under concurrency, outside contract-based verification with the installed tools",
    "C16": "exactly-once accounting is an invariant over whole histories of concurrently created/dropped Arc<RwLock<Context>>, a Drop impl and a spawned collector loop; not a property of one call",
    "C19": "recovery within bounded attempts quantifies over fault sequences in time and quinn's connection state machine; no contract available here can decide it",
}
for _k in ["C02", "C15"]:
    NOT_APPLICABLE.setdefault(_k, "not built yet (planned in DESIGN.md; unit under construction)")
