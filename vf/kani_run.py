"""Kani units: loop-free full-domain harnesses (complete) and heap-free stub-environment units (bounded)."""


def run_kani_unit(name, workdir, tier, prop):
    return {"undecided": "kani unit %s not built" % name, "harnesses": []}
