"""Kani units: loop-free full-domain harnesses (complete) and heap-free stub-environment units (bounded).

A unit lives in /verif/kani/<unit>/ (Cargo.toml, src/main.rs = stubs + harnesses, unit.json).  The real function
text is cut out of /repo's working tree on every run (T1-T3 only: item selected by name, attributes dropped) into
the file the crate `include!`s, so what CBMC executes is the code that runs.
"""
import json
import os
import re
import shutil
import subprocess
import time

from . import rustscan as rs
import threading
_AUTO_LOCK = threading.Lock()

VERIF = os.path.dirname(os.path.dirname(os.path.abspath(__file__)))
REPO = os.environ.get("VERIF_REPO", "/repo")


def extract_item(repo, rel, sel, within=None, methods=None, with_attrs=False, attr_contains=None):
    p = os.path.join(repo, rel)
    if not os.path.exists(p):
        raise RuntimeError("lost anchor: %s missing" % rel)
    txt = open(p).read()
    masked = rs.mask(txt)
    items = rs.list_items(masked, 0, len(masked))
    if within:
        holders = [it for it in items if it.kind == "impl" and (it.name == within or it.name.startswith(within + " "))]
        pool = []
        for h in holders:
            pool += rs.list_items(masked, h.body_open + 1, h.body_close)
    else:
        pool = items
    kind, _, name = sel.partition(" ")
    found = [it for it in pool if it.kind == kind and it.name == name]
    if attr_contains:
        # cfg-gated twins (unix / windows variant of one function): the one whose attributes contain the given text
        found = [it for it in found if attr_contains in txt[it.attr_start:it.start]]
    if len(found) != 1:
        raise RuntimeError("lost anchor: `%s` in %s: %d matches" % (sel, rel, len(found)))
    it = found[0]
    line = txt.count("\n", 0, it.start) + 1
    return txt[(it.attr_start if with_attrs else it.start):it.end], line


def extract_block(repo, rel, sel, frm, to, skip=0):
    """T14: the lines strictly between the line containing `frm` and the later line containing `to` inside fn `sel`"""
    p = os.path.join(repo, rel)
    if not os.path.exists(p):
        raise RuntimeError("lost anchor: %s missing" % rel)
    txt = open(p).read()
    masked = rs.mask(txt)
    kind, _, name = sel.partition(" ")
    top = rs.list_items(masked, 0, len(masked))
    found = [it for it in top if it.kind == kind and it.name == name]
    if not found:
        # a method: look inside the impl blocks of the file
        for im in top:
            if im.kind == "impl" and im.body_open is not None:
                found += [it for it in rs.list_items(masked, im.body_open + 1, im.body_close) if it.kind == kind and it.name == name]
    if len(found) != 1:
        raise RuntimeError("lost anchor: `%s` in %s" % (sel, rel))
    host = found[0]
    lines = txt[host.body_open:host.body_close].split("\n")
    i_from = [i for i, ln in enumerate(lines) if rs.norm_ws(frm) in rs.norm_ws(ln)]
    i_to = [i for i, ln in enumerate(lines) if rs.norm_ws(to) in rs.norm_ws(ln)]
    if len(i_from) != 1 or len(i_to) != 1 or i_to[0] <= i_from[0]:
        raise RuntimeError("lost anchor: block of `%s` between `%s` and `%s`" % (sel, frm, to))
    if skip and any(rs.norm_ws(ln) not in ("}", "", ");") for ln in lines[i_from[0] + 1:i_from[0] + 1 + skip]):
        raise RuntimeError("lost anchor: block of `%s`: skipped lines are not closing braces / parentheses" % sel)
    text = "\n".join(lines[i_from[0] + 1 + skip:i_to[0]])
    return text, txt.count("\n", 0, host.body_open) + i_from[0] + 2 + skip


def extract_macro_body(repo, rel, sel):
    """last `{..}` block argument of the macro invocation starting with `sel` (T17)"""
    p = os.path.join(repo, rel)
    if not os.path.exists(p):
        raise RuntimeError("lost anchor: %s missing" % rel)
    txt = open(p).read()
    masked = rs.mask(txt)
    k = masked.find(sel)
    if k < 0 or masked.find(sel, k + 1) >= 0:
        raise RuntimeError("lost anchor: macro invocation `%s` in %s" % (sel, rel))
    po = masked.index("(", k)
    pc = rs.match_close(masked, po)
    last_open = None
    i = po + 1
    while i < pc:
        ch = masked[i]
        if ch == "{":
            last_open = i
            i = rs.match_close(masked, i)
        elif ch in "([":
            i = rs.match_close(masked, i)
        i += 1
    if last_open is None:
        raise RuntimeError("macro invocation `%s` has no block argument" % sel)
    bc = rs.match_close(masked, last_open)
    return txt[last_open:bc + 1], txt.count("\n", 0, last_open) + 1


def extract_invocation(repo, rel, sel):
    """T17b: a whole macro invocation `name!( .. );` starting with the unique text `sel`, verbatim"""
    p = os.path.join(repo, rel)
    if not os.path.exists(p):
        raise RuntimeError("lost anchor: %s missing" % rel)
    txt = open(p).read()
    masked = rs.mask(txt)
    k = masked.find(sel)
    if k < 0 or masked.find(sel, k + 1) >= 0:
        raise RuntimeError("lost anchor: macro invocation `%s` in %s" % (sel, rel))
    po = masked.index("(", k)
    pc = rs.match_close(masked, po)
    return txt[k:pc + 1] + ";", txt.count("\n", 0, k) + 1


def parse_kani_output(out):
    res = {"status": "UNKNOWN", "failed": [], "covers": None, "checks": None}
    m = re.search(r"VERIFICATION:- (SUCCESSFUL|FAILED)", out)
    if m:
        res["status"] = m.group(1)
    if re.search(r"CBMC failed with status \d+|CBMC crashed", out) and not re.search(r"Failed Checks:", out):
        # a tool crash is not a verdict
        res["status"] = "UNKNOWN"
        res["tool_crash"] = True
    for fm in re.finditer(r"Failed Checks: (.*)\n\s*File: \"([^\"]*)\", line (\d+), in (\S+)", out):
        res["failed"].append(dict(description=fm.group(1).strip(), file=fm.group(2), line=int(fm.group(3)), function=fm.group(4)))
    cm = re.search(r"\*\* (\d+) of (\d+) cover properties satisfied", out)
    if cm:
        res["covers"] = (int(cm.group(1)), int(cm.group(2)))
    sm = re.search(r"\*\* (\d+) of (\d+) failed", out)
    if sm:
        res["checks"] = dict(failed=int(sm.group(1)), total=int(sm.group(2)))
    if re.search(r"unwinding assertion", out) and any("unwinding" in f["description"] for f in res["failed"]):
        res["unwinding_failed"] = True
    return res


def playback(dst, env, base_cmd, hname, h):
    """Kani concrete playback: regenerate the counterexample as unit tests in place, run them natively."""
    res = {"ran": False}
    src_main = os.path.join(dst, "src", "main.rs")
    backup = open(src_main).read()
    try:
        cmd = base_cmd + ["-Z", "concrete-playback", "--concrete-playback=inplace", "--harness", hname] + h.get("args", [])
        try:
            p = subprocess.run(cmd, cwd=dst, env=env, capture_output=True, text=True, timeout=h.get("playback_timeout", 2400))
        except subprocess.TimeoutExpired:
            subprocess.run("pkill -9 cbmc; pkill -9 kani-driver", shell=True)
            res["summary"] = "concrete playback generation timed out"
            return res
        text = open(src_main).read()
        tests = re.findall(r"fn (kani_concrete_playback_\w+)\(\)", text)
        if not tests:
            res["summary"] = "no playback test generated"
            return res
        res["tests_text"] = text[len(backup):] if text.startswith(backup[:200]) else ""
        m = re.search(r"#\[test\]\s*fn kani_concrete_playback.*", text, re.S)
        if m:
            res["tests_text"] = m.group(0)
        cmd2 = ["cargo", "kani", "playback", "-Z", "concrete-playback"] + [a for a in base_cmd[2:]]
        try:
            p2 = subprocess.run(cmd2, cwd=dst, env=env, capture_output=True, text=True, timeout=900)
        except subprocess.TimeoutExpired:
            res["summary"] = "native playback timed out"
            return res
        outp = p2.stdout + p2.stderr
        mres = re.search(r"test result: (\w+)\. (\d+) passed; (\d+) failed", outp)
        if not mres:
            res["summary"] = "native playback produced no test result: " + outp[-300:]
            return res
        res["ran"] = True
        res["panics"] = re.findall(r"panicked at [^\n]*\n([^\n]*)", outp)[:8]
        res["reproduced"] = int(mres.group(3)) > 0
        res["summary"] = mres.group(0)
        return res
    finally:
        open(src_main, "w").write(backup)


def run_kani_unit(name, workdir, tier, prop):
    src = os.path.join(VERIF, "kani", name)
    out = {"harnesses": [], "unit": name}
    if not os.path.isdir(src):
        out["undecided"] = "kani unit %s not present" % name
        return out
    if shutil.which("cargo-kani") is None and shutil.which("kani") is None:
        out["undecided"] = "kani not installed"
        return out
    cfg = json.load(open(os.path.join(src, "unit.json")))
    dst = os.path.join(workdir, "kani_" + name)
    if os.path.exists(dst):
        shutil.rmtree(dst)
    shutil.copytree(src, dst)
    out["extracted"] = []
    out["transformations"] = cfg.get("transformations", [])
    try:
        for e in cfg.get("extract", []):
            if e.get("block"):
                text, line = extract_block(REPO, e["file"], e["sel"], e["block"]["from"], e["block"]["to"], e["block"].get("skip", 0))
            elif e.get("invocation"):
                text, line = extract_invocation(REPO, e["file"], e["invocation"])
            elif e.get("macro_body"):
                text, line = extract_macro_body(REPO, e["file"], e["macro_body"])
            else:
                text, line = extract_item(REPO, e["file"], e["sel"], within=e.get("within"), with_attrs=bool(e.get("with_attrs")), attr_contains=e.get("attr_contains"))
            for a, b in e.get("replace", []) + cfg.get("replace_all", []):
                text = text.replace(a, b)
            if e.get("drop_attrs"):
                # T3: derive / serde attributes have no meaning in the stub crate (no proc macros there)
                text = re.sub(r"#\[(?:derive|serde)\((?:[^()]|\([^()]*\))*\)\]\s*", "", text)
            with open(os.path.join(dst, e["out"]), "a" if e.get("append") else "w") as f:
                f.write(e.get("prefix", "") + text + e.get("suffix", "") + "\n")
            item = e.get("sel") or e.get("macro_body") or e.get("invocation")
            if e.get("block"):
                item = "%s [statements after `%s` up to `%s`]" % (e.get("sel"), e["block"]["from"], e["block"]["to"])
            if e.get("within"):
                item = "%s :: %s" % (e["within"], item)
            out["extracted"].append(dict(file=e["file"], item=item, line=line))
    except RuntimeError as ex:
        out["undecided"] = str(ex)
        return out
    env = dict(os.environ)
    env["CARGO_NET_OFFLINE"] = "true"
    env["CARGO_TARGET_DIR"] = os.path.join(dst, "target")
    base_cmd = ["cargo", "kani"] + cfg.get("kani_args", [])
    out["cmd"] = " ".join(base_cmd) + " --harness <h>  (crate /verif/kani/%s, function text extracted from /repo)" % name
    selected = []
    for hname, h in cfg["harnesses"].items():
        if prop not in h.get("props", [prop]):
            continue
        if h.get("tier") == "thorough" and tier != "thorough":
            continue
        selected.append((hname, h))

    # result cache: the verdict of a harness is a function of (Kani version, every file of the stub crate incl. the
    # function text just extracted from /repo, harness name, arguments).  Extraction always happens; CBMC is skipped only
    # when exactly this input was decided before.  VERIF_NO_CACHE=1 disables it; evidence marks cached entries.
    import hashlib
    hsh = hashlib.sha256()
    hsh.update(b"kani-0.68.0|" + " ".join(base_cmd).encode())
    for root, dirs, files in sorted(os.walk(dst)):
        dirs[:] = sorted(d for d in dirs if d != "target")
        for fn in sorted(files):
            fp = os.path.join(root, fn)
            hsh.update(os.path.relpath(fp, dst).encode() + b"\0" + open(fp, "rb").read() + b"\0")
    crate_key = hsh.hexdigest()
    cache_dir = os.path.join(VERIF, ".cache", "kani")
    use_cache = not os.environ.get("VERIF_NO_CACHE")

    def run_one(item):
        hname, h = item
        ckey = hashlib.sha256((crate_key + "|" + hname + "|" + " ".join(h.get("args", []))).encode()).hexdigest()
        cpath = os.path.join(cache_dir, ckey + ".json")
        if use_cache and os.path.exists(cpath):
            try:
                ent = json.load(open(cpath))
                ent["from_cache"] = True
                return ent, None
            except Exception:
                pass
        entry, und = run_one_uncached(item)
        # auto-include: an edit may move code into a NEW free helper function of the same source file.  Kani executes
        # bodies, so the helper needs no contract: when compilation fails with "cannot find function `X`" and a top-level
        # `fn X` exists in one of the unit's source files it is extracted too and the harness is run again.
        auto_used = False
        for _round in range(3):
            # a helper METHOD introduced by an edit: "no method named `x` found for .. `T`" and some `impl .. T` of a
            # unit source file has `fn x`: include it wrapped in an inherent impl of T
            mm = re.findall(r"no method named `([A-Za-z_]\w*)` found for (?:[a-z ]*reference )?(?:struct |enum )?`(?:&(?:mut )?)?([A-Za-z_]\w*)", und or "")
            if und is not None and mm:
                added_m = False
                for nm, ty in sorted(set(mm)):
                    for e in cfg.get("extract", []):
                        pth = os.path.join(REPO, e["file"])
                        if not os.path.exists(pth):
                            continue
                        txt = open(pth).read(); masked = rs.mask(txt)
                        for it in rs.list_items(masked, 0, len(masked)):
                            if it.kind != "impl" or not re.search(r"\b%s\b" % re.escape(ty), it.name) or it.body_open is None:
                                continue
                            for sub in rs.list_items(masked, it.body_open + 1, it.body_close):
                                if sub.kind == "fn" and sub.name == nm:
                                    text = txt[sub.start:sub.end]
                                    for a, b in cfg.get("replace_all", []):
                                        text = text.replace(a, b)
                                    with _AUTO_LOCK:
                                        tag = "%s::%s::%s" % (e["file"], ty, nm)
                                        if tag not in out.setdefault("auto_included", []):
                                            with open(os.path.join(dst, cfg["extract"][-1]["out"]), "a") as f:
                                                f.write("\n// auto-included helper method (not listed in unit.json): %s\nimpl %s {\n%s\n}\n" % (tag, ty, text))
                                            out["auto_included"].append(tag)
                                    added_m = True
                        if added_m:
                            break
                if added_m:
                    auto_used = True
                    entry, und = run_one_uncached(item)
                    continue
            if und is None or "cannot find function" not in (und or ""):
                break
            auto_used = True
            names = set(re.findall(r"cannot find function `([A-Za-z_]\w*)`", und))
            added = False
            for nm in sorted(names):
                for e in cfg.get("extract", []):
                    try:
                        text, line = extract_item(REPO, e["file"], "fn " + nm)
                    except RuntimeError:
                        continue
                    for a, b in cfg.get("replace_all", []):
                        text = text.replace(a, b)
                    with _AUTO_LOCK:   # harnesses run in parallel threads and share the crate template
                        tag = "%s::%s" % (e["file"], nm)
                        if tag not in out.setdefault("auto_included", []):
                            with open(os.path.join(dst, cfg["extract"][-1]["out"]), "a") as f:
                                f.write("\n// auto-included helper (not listed in unit.json): %s:%d\n%s\n" % (e["file"], line, text))
                            out["auto_included"].append(tag)
                    added = True
                    break
            if not added:
                break
            entry, und = run_one_uncached(item)
        if use_cache and not auto_used and und is None and entry.get("status") in ("SUCCESSFUL", "FAILED"):
            try:
                os.makedirs(cache_dir, exist_ok=True)
                json.dump(entry, open(cpath, "w"))
            except Exception:
                pass
        return entry, und

    def run_one_uncached(item):
        hname, h = item
        hdst = dst + "_" + hname
        shutil.copytree(dst, hdst)
        henv = dict(env)
        henv["CARGO_TARGET_DIR"] = os.path.join(hdst, "target")
        und = None
        t0 = time.time()
        cmd = base_cmd + ["--harness", hname] + h.get("args", [])
        entry = dict(name=hname, bound=h.get("bound", ""), complete=h.get("complete", False))
        try:
            p = subprocess.run(cmd, cwd=hdst, env=henv, capture_output=True, text=True, timeout=h.get("timeout", 900))
            text = p.stdout + p.stderr
        except subprocess.TimeoutExpired:
            entry.update(status="TIMEOUT", wall_s=round(time.time() - t0, 1))
            shutil.rmtree(hdst, ignore_errors=True)
            return entry, "kani harness %s timed out after %ss" % (hname, h.get("timeout", 900))
        r = parse_kani_output(text)
        entry.update(status=r["status"], failed=r["failed"], checks=r["checks"], wall_s=round(time.time() - t0, 1),
                     output_tail=text[-3000:])
        if r["status"] == "UNKNOWN":
            errs = re.findall(r"^error.*$", text, re.M)
            und = "kani harness %s gave no verdict (%s)" % (hname, "; ".join(errs[:3]) or text[-300:].replace("\n", " "))
        if r.get("unwinding_failed") and len(r["failed"]) and all("unwinding" in f["description"] for f in r["failed"]):
            entry["status"] = "UNKNOWN"
            und = "kani harness %s: unwinding bound too small" % hname
        if entry["status"] == "FAILED" and not os.environ.get("VERIF_NO_PLAYBACK"):
            pb = playback(hdst, henv, base_cmd, hname, h)
            entry["playback"] = pb
            if pb.get("ran") and pb.get("reproduced"):
                entry["counterexample"] = dict(concrete_values=pb.get("tests_text", "")[:6000], native_panics=pb.get("panics", []))
            elif pb.get("ran") and not pb.get("reproduced"):
                entry["status"] = "UNKNOWN"
                und = "kani harness %s: counterexample did not reproduce in the native replay (spurious): %s" % (hname, pb.get("summary", ""))
        if h.get("cover") and und is None:
            if r["covers"] is None or r["covers"][0] != r["covers"][1]:
                if r["status"] != "FAILED":
                    entry["status"] = "UNKNOWN"
                    und = "kani cover harness %s: not every cover property satisfied (%s): vacuous stub environment" % (hname, r["covers"])
            entry["covers"] = r["covers"]
        shutil.rmtree(hdst, ignore_errors=True)
        return entry, und

    import concurrent.futures as cf
    with cf.ThreadPoolExecutor(max_workers=4) as ex:
        for entry, und in ex.map(run_one, selected):
            out["harnesses"].append(entry)
            if und:
                out["undecided"] = und
    shutil.rmtree(os.path.join(dst, "target"), ignore_errors=True)
    return out
