"""Load a unit description, generate its Verus file from /repo's working tree, run Verus."""
import json
import re
import os
import shutil
import subprocess
import sys
import tempfile

from . import extract, verus_run

VERIF = os.path.dirname(os.path.dirname(os.path.abspath(__file__)))
REPO = os.environ.get("VERIF_REPO", "/repo")
UNIT_DIR = os.path.join(VERIF, "contracts", "units")
SHIM_DIR = os.path.join(VERIF, "contracts", "shims")


def load_unit(name):
    p = os.path.join(UNIT_DIR, name + ".json")
    u = json.load(open(p))
    u.setdefault("name", name)
    return u


class Generated:
    def __init__(self):
        self.text = ""
        self.linemap = []
        self.functions = []
        self.transforms = []
        self.fn_ranges = []


# T11: compiler expansion of a crate, produced from the current working tree on every run.
# (repo, crate_dir) -> text; cached for the lifetime of this python process only (one ./check run generates the
# same unit several times: main run, vacuity probe, canaries).
_EXPAND_CACHE = {}


def expand_crate(repo, crate_dir):
    """`cargo +nightly rustc --lib --offline -- -Zunpretty=expanded` in <repo>/<crate_dir>; returns stdout.

    CARGO_TARGET_DIR is a fresh temp dir outside /repo and /verif, removed afterwards.  Any failure is UNDECIDED."""
    key = (os.path.realpath(repo), crate_dir)
    if key in _EXPAND_CACHE:
        return _EXPAND_CACHE[key]
    cwd = os.path.join(repo, crate_dir)
    if not os.path.isdir(cwd):
        raise extract.Undecided("expand: crate dir missing: %s" % cwd)
    tgt = tempfile.mkdtemp(prefix="vf_expand_")
    try:
        env = dict(os.environ, CARGO_TARGET_DIR=tgt, CARGO_NET_OFFLINE="true")
        try:
            p = subprocess.run(["cargo", "+nightly", "rustc", "--lib", "--offline", "--", "-Zunpretty=expanded"],
                               cwd=cwd, env=env, capture_output=True, text=True, timeout=900)
        except (OSError, subprocess.TimeoutExpired) as e:
            raise extract.Undecided("expand: cargo +nightly rustc failed to run: %s" % e)
        if p.returncode != 0 or not p.stdout.strip():
            raise extract.Undecided("expand: rustc -Zunpretty=expanded failed in %s: %s" % (cwd, p.stderr[-300:]))
        _EXPAND_CACHE[key] = p.stdout
        return p.stdout
    finally:
        shutil.rmtree(tgt, ignore_errors=True)


def generate(unit, repo=REPO, pre_sources=None):
    ex = extract.Extractor(repo, unit, UNIT_DIR, SHIM_DIR)
    exp = unit.get("expand")
    if exp:
        # {"crate_dir": "milu", "virtual_file": "@expanded/milu.rs"}: items whose "file" is the virtual file are
        # extracted from rustc's own macro expansion; reported line numbers refer to that expansion.
        vfile = exp.get("virtual_file", "@expanded/%s.rs" % exp["crate_dir"])
        if not (pre_sources and vfile in pre_sources):
            ex.load_text(vfile, expand_crate(repo, exp["crate_dir"]))
            ex.transforms.add("T11")
    if pre_sources:
        for rel, txt in pre_sources.items():
            ex.load_text(rel, txt)
    text, linemap = ex.generate()
    g = Generated()
    g.text, g.linemap = text, linemap
    g.functions = ex.functions
    g.transforms = sorted(ex.transforms | {"T1", "T2"})
    g.vacuity_probes = list(ex.vacuity_probes)
    g.contracted = set(ex.used_contracts)
    g.lost_hints = list(ex.lost_hints)
    g.fn_ranges = [(f["name"], f["file"], f["line_start"], f["line_end"]) for f in ex.functions]
    return g


def run_unit(name, workdir, repo=REPO, variant=None, rlimit=None, threads=4, mutate=None, pre_sources=None):
    """variant: None | 'vacuity'.  mutate: optional fn(text)->text applied to the generated file."""
    unit = load_unit(name)
    g = generate(unit, repo, pre_sources)
    text = g.text
    if mutate:
        text = mutate(text)
    fname = "%s%s.rs" % (name, ("_" + variant) if variant else "")
    path = os.path.join(workdir, fname)
    with open(path, "w") as f:
        f.write(text)
    res = verus_run.run_verus(path, text, g.linemap, name, g.fn_ranges, rlimit=rlimit or unit.get("rlimit"),
                              threads=threads, extra_args=unit.get("verus_args", []))
    # auto-recovery: an edit may introduce a new module-level `const` / `static` (e.g. a limit) that the unit does not list.
    # If the generated file fails to compile only because such a value is unknown and an item of that name exists at the
    # top level of one of the unit's source files, it is extracted too and Verus is run again (constants only: a new
    # helper FUNCTION has no contract and stays an UNDECIDED).
    for _round in range(3):
        if not res.undecided or not res.raw_compile_errors:
            break
        missing = set()
        for m, r in res.raw_compile_errors:
            mm = re.search(r"cannot find value `([A-Za-z_]\w*)` in this scope", m)
            if mm:
                missing.add(mm.group(1))
        add = []
        files = [unit.get("file")] + [e.get("file") for e in unit["items"] if e.get("file")]
        for nm in sorted(missing):
            for rel in dict.fromkeys(f for f in files if f and not f.startswith("@")):
                p_ = os.path.join(repo, rel)
                if not os.path.exists(p_):
                    continue
                src = open(p_).read()
                msk = extract.rs.mask(src)
                for it in extract.rs.list_items(msk, 0, len(msk)):
                    if it.kind in ("const", "static") and it.name == nm:
                        add.append({"sel": "%s %s" % (it.kind, nm), "file": rel})
        if not add:
            break
        unit = dict(unit)
        unit["items"] = add + list(unit["items"])
        unit.setdefault("_auto_items", []).extend(a["sel"] for a in add)
        g = generate(unit, repo, pre_sources)
        text = mutate(g.text) if mutate else g.text
        with open(path, "w") as f:
            f.write(text)
        res = verus_run.run_verus(path, text, g.linemap, name, g.fn_ranges, rlimit=rlimit or unit.get("rlimit"),
                                  threads=threads, extra_args=unit.get("verus_args", []))
    return unit, g, res


if __name__ == "__main__":
    name = sys.argv[1]
    keep = "--keep" in sys.argv
    wd = tempfile.mkdtemp(prefix="vf_")
    try:
        try:
            unit, g, res = run_unit(name, wd)
        except extract.Undecided as e:
            print("UNDECIDED", e)
            sys.exit(2)
        print("cmd:", res.cmd)
        print("verified=%d errors=%d smt_ms=%d wall=%.1fs undecided=%s" % (res.verified, res.errors, res.smt_ms, res.wall_s, res.undecided))
        for m, r in res.raw_compile_errors[:12]:
            print("COMPILE:", r or m)
        for q, a in getattr(g, "lost_hints", []):
            print("LOST-HINT %s `%s`" % (q, a))
        for d in res.diags:
            print("FAIL %s\n     %s | %s | clause: %s" % (d.obligation_name(name), d.message, d.text.strip(), (d.callee_clause or d.post_clause).strip()))
        for k, v in sorted(res.functions.items()):
            print("  %-50s %s %sms rlimit=%s" % (k, "ok" if v["success"] else "FAILED", v["time_ms"], v["rlimit"]))
        if keep:
            shutil.copy(res.gen_path, "/tmp/vx/%s.gen.rs" % name)
            print("kept /tmp/vx/%s.gen.rs" % name)
    finally:
        shutil.rmtree(wd, ignore_errors=True)
