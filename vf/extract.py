"""Mechanical extraction of items from /repo's working tree into one Verus file.

Transformations performed (and nothing else) are the T1..T12 list in DESIGN.md section 3.1.
Every generated line remembers the /repo file and line it came from.
"""
import hashlib
import json
import os
import re

from . import rustscan as rs


class Undecided(Exception):
    """lost anchor / missing item / unsupported shape: exit 2, never an alarm"""


# ----------------------------------------------------------------------------------------------
# text with per-character origins


class OText:
    def __init__(self, text, origins):
        assert len(text) == len(origins)
        self.text, self.origins = text, origins

    @classmethod
    def from_src(cls, src, a, b, file_idx):
        return cls(src[a:b], [(file_idx, k) for k in range(a, b)])

    @classmethod
    def synthetic(cls, text):
        return cls(text, [None] * len(text))

    def apply(self, edits):
        """edits: list of (a, b, new_text) over self.text coordinates, non overlapping"""
        edits = sorted(edits, key=lambda e: (e[0], e[1]))
        out_t, out_o = [], []
        pos = 0
        for a, b, new in edits:
            if a < pos:
                raise Undecided("overlapping edits at %d (%r)" % (a, new[:40]))
            out_t.append(self.text[pos:a])
            out_o.extend(self.origins[pos:a])
            out_t.append(new)
            out_o.extend([None] * len(new))
            pos = b
        out_t.append(self.text[pos:])
        out_o.extend(self.origins[pos:])
        return OText("".join(out_t), out_o)

    def __add__(self, other):
        return OText(self.text + other.text, self.origins + other.origins)


# ----------------------------------------------------------------------------------------------
# sidecar parsing


class Sidecar:
    def __init__(self, path):
        self.path = path
        self.contracts = {}  # qual -> (retname, text)
        self.loops = {}  # (qual, ordinal) -> text
        self.hints = []  # dict(qual, where, anchor, nth, text)
        self.attrs = {}  # qual -> text
        self.params = {}  # qual -> {old: new}  (parameter mutability etc.)
        self.prelude = ""
        self.postlude = ""
        if path and os.path.exists(path):
            self._parse(open(path).read())

    def _parse(self, txt):
        lines = txt.split("\n")
        pre, post = [], []
        cur = None
        target = pre
        for ln in lines:
            s = ln.strip()
            if s.startswith("//@"):
                d = s[3:].strip()
                if d == "end":
                    if cur is None:
                        raise Undecided("sidecar: stray //@ end")
                    kind, args, body = cur
                    self._add(kind, args, "\n".join(body))
                    cur = None
                elif d == "postlude":
                    target = post
                else:
                    if cur is not None:
                        raise Undecided("sidecar: nested directive %s" % d)
                    parts = d.split(None, 1)
                    cur = (parts[0], parts[1] if len(parts) > 1 else "", [])
            elif cur is not None:
                cur[2].append(ln)
            else:
                target.append(ln)
        if cur is not None:
            raise Undecided("sidecar: unterminated directive")
        self.prelude = "\n".join(pre)
        self.postlude = "\n".join(post)

    def _add(self, kind, args, body):
        if kind == "contract":
            m = re.match(r"(\S+)(?:\s+ret=(\w+))?\s*$", args)
            self.contracts[m.group(1)] = (m.group(2) or "ret", body)
        elif kind == "loop":
            m = re.match(r"(\S+)\s+(\d+)\s*$", args)
            self.loops[(m.group(1), int(m.group(2)))] = body
        elif kind == "hint":
            m = re.match(r"(\S+)\s+(after|before)\s+`(.*)`(?:\s+nth=(\d+))?\s*$", args)
            if not m:
                raise Undecided("sidecar: bad hint directive: %s" % args)
            self.hints.append(dict(qual=m.group(1), where=m.group(2), anchor=m.group(3),
                                   nth=int(m.group(4) or 0), text=body))
        elif kind == "attr":
            self.attrs[args.strip()] = body
        else:
            raise Undecided("sidecar: unknown directive %s" % kind)


# ----------------------------------------------------------------------------------------------


DROP_ATTR_RE = re.compile(r"^\s*#\[(inline|allow|derive|serde|async_trait|cfg|must_use|doc|cfg_attr|test|tokio::test|test_log)[^\n]*\]\s*$")


class Extractor:
    def __init__(self, repo, unit, unit_dir, shim_dir):
        self.repo = repo
        self.unit = unit
        self.unit_dir = unit_dir
        self.shim_dir = shim_dir
        self.files = []  # index -> relpath
        self.src = {}  # relpath -> (text, masked, items)
        self.sidecar = Sidecar(os.path.join(unit_dir, unit["spec"])) if unit.get("spec") else Sidecar(None)
        self.functions = []  # dicts: qual, file, line_start, line_end, sha256, props...
        self.transforms = set()
        self.used_contracts = set()
        self.used_loops = set()
        self.used_hints = set()
        self.vacuity_probes = []
        self.lost_hints = []
        self.optional_missing = set()  # quals of "optional" items absent from this tree

    # -- source access
    def load(self, rel):
        if rel not in self.src:
            p = os.path.join(self.repo, rel)
            if not os.path.exists(p):
                raise Undecided("source file missing: %s" % rel)
            txt = open(p).read()
            if self.unit.get("expanded_from") and rel.startswith("@expanded"):
                pass
            masked = rs.mask(txt)
            items = rs.list_items(masked, 0, len(masked))
            self.src[rel] = (txt, masked, items)
            self.files.append(rel)
        return self.src[rel]

    def load_text(self, rel, txt):
        masked = rs.mask(txt)
        items = rs.list_items(masked, 0, len(masked))
        self.src[rel] = (txt, masked, items)
        self.files.append(rel)

    def file_idx(self, rel):
        return self.files.index(rel)

    @staticmethod
    def line_of(txt, off):
        return txt.count("\n", 0, off) + 1

    # -- item lookup
    def find(self, rel, sel, within=None):
        txt, masked, items = self.load(rel)
        pool = items
        if within is not None:
            pool = rs.list_items(masked, within.body_open + 1, within.body_close)
        kind, _, name = sel.partition(" ")
        res = []
        for it in pool:
            if sel.startswith("impl") and it.kind == "impl":
                if it.name == sel or it.name.startswith(sel + " "):
                    res.append(it)
            elif it.kind == kind and it.name == name:
                res.append(it)
        return res

    # -- phase 1: textual edits on an item
    def phase1(self, ot: OText, strip_async: bool, rewrites):
        edits = []
        masked = rs.mask(ot.text)
        if strip_async:
            for m in re.finditer(r"\.await\b", masked):
                edits.append((m.start(), m.end(), ""))
                self.transforms.add("T4")
            for m in re.finditer(r"\basync\s+(?=(?:unsafe\s+)?fn\b)", masked):
                edits.append((m.start(), m.end(), ""))
                self.transforms.add("T4")
            for m in re.finditer(r"\basync\s+move\s*(?=\{)|\basync\s*(?=\{)", masked):
                edits.append((m.start(), m.end(), ""))
                self.transforms.add("T4")
        ot = ot.apply(edits)
        for rw in rewrites:
            rx, repl = rw[0], rw[1]
            flags = re.S if (len(rw) > 3 and "s" in rw[3]) else 0
            crx = re.compile(rx, flags)
            masked = rs.mask(ot.text)
            es = []
            for m in crx.finditer(ot.text):
                # do not rewrite inside comments
                if masked[m.start()] == " " and ot.text[m.start()] != " ":
                    continue
                es.append((m.start(), m.end(), m.expand(repl)))
            if es:
                self.transforms.add("T8")
                ot = ot.apply(es)
        return ot

    # -- phase 2: structural edits on a fn
    def phase2_fn(self, ot: OText, qual: str):
        masked = rs.mask(ot.text)
        items = rs.list_items(masked, 0, len(masked))
        fns = [it for it in items if it.kind == "fn"]
        if len(fns) != 1:
            raise Undecided("expected one fn in extracted text of %s" % qual)
        it = fns[0]
        if it.body_open is None:
            # trait method declaration: only a contract can be spliced, before the terminating `;`
            contract = self.sidecar.contracts.get(qual)
            if contract is None:
                return ot
            self.used_contracts.add(qual)
            retname, ctext = contract
            sig = rs.fn_signature_parts(masked, it)
            edits = []
            if sig["ret_start"] is not None:
                rt = ot.text[sig["ret_start"]:sig["ret_end"]]
                edits.append((sig["ret_start"], sig["ret_end"], "(%s: %s)" % (retname, rt)))
            semi = it.end - 1
            edits.append((semi, semi, "\n" + ctext.rstrip().rstrip(",") + "\n"))
            self.transforms.add("T5")
            return ot.apply(edits)
        sig = rs.fn_signature_parts(masked, it)
        edits = []
        contract = self.sidecar.contracts.get(qual)
        attr = self.sidecar.attrs.get(qual)
        if attr:
            edits.append((it.start, it.start, attr.strip() + "\n"))
        # T7 tuple-pattern params
        ptxt = masked[sig["params_open"] + 1:sig["params_close"]]
        tp = re.match(r"\s*(\((?:[^()]|\([^()]*\))*\))\s*:", ptxt)
        rebinding = ""
        if tp:
            a = sig["params_open"] + 1 + tp.start(1)
            b = sig["params_open"] + 1 + tp.end(1)
            edits.append((a, b, "p__0"))
            rebinding = " let %s = p__0;" % ot.text[a:b]
            self.transforms.add("T7")
        if contract is not None:
            self.used_contracts.add(qual)
            retname, ctext = contract
            if sig["ret_start"] is not None:
                rt = ot.text[sig["ret_start"]:sig["ret_end"]]
                edits.append((sig["ret_start"], sig["ret_end"], "(%s: %s)" % (retname, rt)))
            self.transforms.add("T5")
            edits.append((it.body_open, it.body_open, "\n" + ctext.rstrip() + "\n"))
        if rebinding:
            edits.append((it.body_open + 1, it.body_open + 1, rebinding))
        if self.unit.get("_vacuity"):
            # vacuity probe: must FAIL in every function, otherwise its precondition is unsatisfiable
            self.vacuity_probes.append(qual)
            edits.append((it.body_open + 1, it.body_open + 1, ' proof { assert(vf_vacuity_probe("%s")); }' % qual))
        # loops
        loops = rs.find_loops(masked, it.body_open, it.body_close)
        for (q, n), ltext in self.sidecar.loops.items():
            if q != qual:
                continue
            if n >= len(loops):
                raise Undecided("lost anchor: %s has %d loops, invariant for loop %d" % (qual, len(loops), n))
            self.used_loops.add((q, n))
            if loops[n][0] == "for":
                # Verus needs a name for the ghost iterator: `for x in e` -> `for x in vf_it: e`
                fm = re.compile(r"\bin\s+").search(masked, loops[n][1], loops[n][2])
                if not fm:
                    raise Undecided("cannot parse for-loop header in %s" % qual)
                edits.append((fm.end(), fm.end(), "vf_it: "))
            edits.append((loops[n][2], loops[n][2], "\n" + ltext.rstrip() + "\n"))
            self.transforms.add("T6")
        # hints: ghost code anchored on a line of the body.  If ANY hint of this function lost its anchor, all hints of the
        # function are dropped (they may share ghost variables) and the function is verified without them; failures in
        # it are then UNDECIDED (main.py), success means the edit was harmless.
        body_lines = []
        off = it.body_open
        for ln in ot.text[it.body_open:it.body_close + 1].split("\n"):
            body_lines.append((off, ln))
            off += len(ln) + 1
        mine = [(hi, h) for hi, h in enumerate(self.sidecar.hints) if h["qual"] == qual]
        placed = []
        lost_here = []
        for hi, h in mine:
            anchor = rs.norm_ws(h["anchor"])
            hits = [(o, ln) for (o, ln) in body_lines if anchor in rs.norm_ws(ln)]
            self.used_hints.add(hi)
            if len(hits) <= h["nth"]:
                lost_here.append(h["anchor"])
            else:
                placed.append((h, hits[h["nth"]]))
        if lost_here:
            for a_ in lost_here:
                self.lost_hints.append((qual, a_))
        else:
            for h, (o, ln) in placed:
                self.transforms.add("T10")
                if h["where"] == "after":
                    edits.append((o + len(ln), o + len(ln), "\n" + h["text"].rstrip()))
                else:
                    edits.append((o, o, h["text"].rstrip() + "\n"))
        return ot.apply(edits)

    # -- main
    def build_items(self):
        out = OText.synthetic("")
        default_file = self.unit.get("file")
        strip_async = self.unit.get("strip_async", False)
        rewrites = self.unit.get("rewrites", [])
        for ent in self.unit["items"]:
            rel = ent.get("file", default_file)
            txt, masked, _ = self.load(rel)
            fi = self.file_idx(rel)
            sel = ent["sel"]
            # optional "in": ["mod script", "mod stdlib", "impl Callable for Access", "fn signature"] -- containers to
            # descend through before looking for `sel` (modules of a compiler expansion, fn items nested in a fn)
            within = None
            for csel in ent.get("in", []):
                cs = [c for c in self.find(rel, csel, within=within) if c.body_open is not None]
                if len(cs) != 1:
                    raise Undecided("lost anchor: container `%s` of `%s` in %s: %d matches" % (csel, sel, rel, len(cs)))
                within = cs[0]
            if ent.get("macro_body"):
                # T17: "sel": "function!(CidrMatch", "macro_body": {"qual", "wrap_prefix", "wrap_suffix"}: the last `{..}`
                # block argument of the macro invocation (the body the macro pastes into `call`) is copied byte for byte
                # and wrapped into a synthetic fn whose signature mirrors what the macro generates.
                mb = ent["macro_body"]
                k = masked.find(sel)
                if k < 0 or masked.find(sel, k + 1) >= 0:
                    raise Undecided("lost anchor: macro invocation `%s` in %s" % (sel, rel))
                po = masked.index("(", k)
                pc = rs.match_close(masked, po)
                depth = 0
                last_open = None
                i2 = po + 1
                while i2 < pc:
                    ch = masked[i2]
                    if ch == "{" and depth == 0:
                        last_open = i2
                        i2 = rs.match_close(masked, i2)
                    elif ch in "([":
                        i2 = rs.match_close(masked, i2)
                    i2 += 1
                if last_open is None:
                    raise Undecided("macro invocation `%s` has no block argument" % sel)
                bo, bc = last_open, rs.match_close(masked, last_open)
                qual = mb["qual"]
                self.functions.append(dict(name=qual, file=rel, line_start=self.line_of(txt, bo), line_end=self.line_of(txt, bc),
                                           sha256=hashlib.sha256(txt[bo:bc + 1].encode()).hexdigest()))
                self.transforms.add("T17")
                ot = OText.synthetic(mb["wrap_prefix"] + "\n") + OText.from_src(txt, bo, bc + 1, fi) + OText.synthetic("\n" + mb["wrap_suffix"] + "\n")
                ot = self.phase1(ot, strip_async, rewrites + ent.get("rewrites", []))
                ot = self.phase2_fn(ot, qual)
                out = out + OText.synthetic("\n") + ot + OText.synthetic("\n")
                continue
            found = self.find(rel, sel, within=within)
            if found and ent.get("capture"):
                # T18: "capture": {"regex": r"...(group 1)...", "qual", "wrap_prefix", "wrap_suffix"}: the text matched by
                # group 1 of the regex inside fn `sel` (exactly one match) is copied byte for byte into a synthetic fn.
                cp = ent["capture"]
                host = found[0]
                ms = list(re.finditer(cp["regex"], txt[host.start:host.end], re.S))
                if len(ms) != 1:
                    raise Undecided("lost anchor: capture `%s` in `%s`: %d matches" % (cp["regex"], sel, len(ms)))
                a0 = host.start + ms[0].start(1)
                a1 = host.start + ms[0].end(1)
                qual = cp["qual"]
                self.functions.append(dict(name=qual, file=rel, line_start=self.line_of(txt, a0), line_end=self.line_of(txt, a1 - 1),
                                           sha256=hashlib.sha256(txt[a0:a1].encode()).hexdigest()))
                self.transforms.add("T18")
                ot = OText.synthetic(cp["wrap_prefix"] + "\n") + OText.from_src(txt, a0, a1, fi) + OText.synthetic("\n" + cp["wrap_suffix"] + "\n")
                ot = self.phase1(ot, strip_async, rewrites + ent.get("rewrites", []))
                ot = self.phase2_fn(ot, qual)
                out = out + OText.synthetic("\n") + ot + OText.synthetic("\n")
                continue
            if found and ent.get("block"):
                # T14: "block": {"from": <text of a line>, "to": <text of a later line>, "qual": name,
                #                "wrap_prefix": "fn name(..) -> .. {", "wrap_suffix": "... }"}
                # The statements strictly between the two anchor lines of fn `sel` are copied byte for byte and wrapped
                # into a synthetic function; the rest of the host function is dropped (stated in the evidence).
                b = ent["block"]
                host = found[0]
                body = txt[host.body_open:host.body_close]
                lines = body.split("\n")
                offs = []
                off = host.body_open
                for ln in lines:
                    offs.append(off)
                    off += len(ln) + 1
                i_from = [i for i, ln in enumerate(lines) if rs.norm_ws(b["from"]) in rs.norm_ws(ln)]
                i_to = [i for i, ln in enumerate(lines) if rs.norm_ws(b["to"]) in rs.norm_ws(ln)]
                if len(i_from) != 1 or len(i_to) != 1 or i_to[0] <= i_from[0]:
                    raise Undecided("lost anchor: block of `%s` between `%s` and `%s`" % (sel, b["from"], b["to"]))
                a0 = offs[i_from[0] + 1]
                a1 = offs[i_to[0]]
                qual = b["qual"]
                self.functions.append(dict(name=qual, file=rel, line_start=self.line_of(txt, a0), line_end=self.line_of(txt, a1 - 1),
                                           sha256=hashlib.sha256(txt[a0:a1].encode()).hexdigest()))
                self.transforms.add("T14")
                ot = OText.synthetic(b["wrap_prefix"] + "\n") + OText.from_src(txt, a0, a1, fi) + OText.synthetic(b["wrap_suffix"] + "\n")
                ot = self.phase1(ot, strip_async, rewrites + ent.get("rewrites", []))
                ot = self._drop_inner_attrs(ot)
                ot = self.phase2_fn(ot, qual)
                out = out + OText.synthetic("\n") + ot + OText.synthetic("\n")
                continue
            if not found and ent.get("optional"):
                # "optional": true -- item that exists only in some revisions of the tree (e.g. a helper introduced by a
                # fix); sidecar directives for it are then not required to be placed
                self.optional_missing.add(ent.get("qual") or sel.split(" ", 1)[-1])
                continue
            if not found:
                raise Undecided("lost anchor: item `%s` not found in %s" % (sel, rel))
            ent_rewrites = rewrites + ent.get("rewrites", [])
            if (sel.startswith("impl") or sel.startswith("trait ")) and "fns" in ent:
                header = ent.get("as")
                impl0 = found[0]
                qual_t = ent.get("qual") or (impl0.name if impl0.kind == "trait" else rs.impl_self_type(impl0.name))
                if header:
                    self.transforms.add("T12")
                    # optional "impl_prelude": associated items the fns need (e.g. `type Error = Error;` of a TryFrom impl)
                    out = out + OText.synthetic("\n" + header + " {\n" + ent.get("impl_prelude", ""))
                else:
                    h = txt[impl0.start:impl0.body_open]
                    out = out + self.phase1(OText.from_src(txt, impl0.start, impl0.body_open, fi), False, ent_rewrites) + OText.synthetic("{\n" + ent.get("impl_prelude", ""))
                for fname in ent["fns"]:
                    cands = []
                    for im in found:
                        cands += [(im, f) for f in self.find(rel, "fn " + fname, within=im)]
                    if len(cands) != 1:
                        raise Undecided("lost anchor: fn %s in `%s` of %s: %d matches" % (fname, sel, rel, len(cands)))
                    f = cands[0][1]
                    qual = "%s::%s" % (qual_t, ent.get("rename", {}).get(fname, fname))
                    out = out + self._emit_fn(txt, fi, rel, f, qual, strip_async, ent_rewrites, ent, indent="    ")
                    hdr_t = rs.impl_self_type(rs.norm_ws(header.split("{")[0])) if header else (impl0.name if impl0.kind == "trait" else rs.impl_self_type(impl0.name))
                    self.functions[-1]["verus_name"] = "%s::%s" % (hdr_t, fname)
                out = out + OText.synthetic("}\n")
            else:
                if len(found) != 1:
                    raise Undecided("ambiguous item `%s` in %s: %d matches" % (sel, rel, len(found)))
                it = found[0]
                if it.kind == "fn" and ent.get("wrap_mod"):
                    # "wrap_mod": "Access_signature" -- emit a free fn inside `mod NAME { use super::*; .. }` so that
                    # equally named fn items nested in different functions can coexist; qual = NAME::fn
                    wm = ent["wrap_mod"]
                    out = out + OText.synthetic("\npub mod %s {\nuse super::*;\n" % wm)
                    out = out + self._emit_fn(txt, fi, rel, it, ent.get("qual", "%s::%s" % (wm, it.name)), strip_async, ent_rewrites, ent, indent="    ")
                    out = out + OText.synthetic("}\n")
                elif it.kind == "fn":
                    out = out + self._emit_fn(txt, fi, rel, it, ent.get("qual", it.name), strip_async, ent_rewrites, ent)
                else:
                    ot = OText.from_src(txt, it.start, it.end, fi)
                    ot = self.phase1(ot, strip_async, ent_rewrites)
                    ot = self._drop_inner_attrs(ot)
                    pre = ent.get("prefix", "")
                    out = out + OText.synthetic("\n" + pre) + ot + OText.synthetic("\n")
        return out

    def _drop_inner_attrs(self, ot):
        edits = []
        off = 0
        for ln in ot.text.split("\n"):
            if DROP_ATTR_RE.match(ln):
                edits.append((off, off + len(ln), ""))
                self.transforms.add("T3")
            off += len(ln) + 1
        return ot.apply(edits) if edits else ot

    def _emit_fn(self, txt, fi, rel, f, qual, strip_async, rewrites, ent, indent=""):
        body = txt[f.start:f.end]
        self.functions.append(dict(
            name=qual, file=rel,
            line_start=self.line_of(txt, f.start), line_end=self.line_of(txt, f.end - 1),
            sha256=hashlib.sha256(body.encode()).hexdigest()))
        ot = OText.from_src(txt, f.start, f.end, fi)
        ot = self.phase1(ot, strip_async, rewrites)
        ot = self._drop_inner_attrs(ot)
        ot = self.phase2_fn(ot, qual)
        return OText.synthetic("\n" + indent) + ot + OText.synthetic("\n")

    def generate(self):
        """returns (text, linemap) where linemap[i] = (relpath, line) or None for generated line i+1"""
        parts = []
        head = "// GENERATED by /verif/vf/extract.py from /repo working tree -- do not edit\n"
        head += "#![allow(unused_imports, unused_variables, dead_code, unused_mut, unused_assignments, unreachable_code, non_camel_case_types, unused_parens, unused_braces, unused_unsafe, non_snake_case, unused_macros)]\n"
        head += "use vstd::prelude::*;\n"
        parts.append(OText.synthetic(head))
        outer, inner = [], []
        for sh in self.unit.get("shims", []):
            p = os.path.join(self.shim_dir, sh)
            t = open(p).read()
            if "//@@ outside-verus" in t:
                o, _, i = t.partition("//@@ inside-verus")
                outer.append("// ---- shim (outside verus!) %s\n%s\n" % (sh, o))
                inner.append("// ---- shim %s\n%s\n" % (sh, i))
            else:
                inner.append("// ---- shim %s\n%s\n" % (sh, t))
        parts.append(OText.synthetic("".join(outer)))
        parts.append(OText.synthetic("verus! {\n" + "".join(inner)))
        parts.append(OText.synthetic("// ---- sidecar prelude %s\n%s\n// ---- extracted items\n" % (self.unit.get("spec"), self.sidecar.prelude)))
        items = self.build_items()
        parts.append(items)
        tail = ""
        if self.unit.get("_vacuity"):
            tail = "\nspec fn vf_vacuity_probe(s: &str) -> bool { false }\nproof fn vf_canary() ensures false { }\n"
        parts.append(OText.synthetic("\n// ---- sidecar postlude\n" + self.sidecar.postlude + tail + "\n} // verus!\nfn main() {}\n"))
        # all sidecar directives must have been used
        for q in self.sidecar.contracts:
            if q not in self.used_contracts and q not in self.optional_missing:
                raise Undecided("lost anchor: contract for `%s` has no extracted function" % q)
        for k in self.sidecar.loops:
            if k not in self.used_loops:
                raise Undecided("lost anchor: loop invariant for %s not placed" % (k,))
        for hi, h in enumerate(self.sidecar.hints):
            if hi not in self.used_hints:
                raise Undecided("lost anchor: hint for %s not placed" % h["qual"])
        full = parts[0]
        for p in parts[1:]:
            full = full + p
        # line map
        linemap = []
        cur = None
        for ch, o in zip(full.text, full.origins):
            if ch == "\n":
                linemap.append(cur)
                cur = None
            elif cur is None and o is not None and not ch.isspace():
                fi, off = o
                rel = self.files[fi]
                cur = (rel, self.line_of(self.src[rel][0], off))
        linemap.append(cur)
        return full.text, linemap
