"""Writes MANIFEST.json from vf/registry.py (python3 -m vf.manifest)."""
import json
import os

from . import registry

VERIF = os.path.dirname(os.path.dirname(os.path.abspath(__file__)))


def build():
    checks = []
    for pid in sorted(registry.PROPS):
        P = registry.PROPS[pid]
        checks.append(dict(
            property_id=pid,
            quick_cmd="./check %s --tier quick" % pid,
            thorough_cmd="./check %s --tier thorough" % pid,
            evidence_file="/verif/evidence/%s.json" % pid,
            replay_cmd_template="./check %s --replay {path}" % pid,
            engine=P.get("engine", "verus"),
            level_claimed=dict(category=P.get("level", "proof"), text=P["level_text"], design_ref=P.get("design_ref", "DESIGN.md section 4")),
            level_note=P["level_note"],
            technique=P.get("technique", "contract-based deductive verification (Verus requires/ensures/invariants on functions extracted mechanically from /repo every run)"),
        ))
    na = [dict(property_id=k, reason=v) for k, v in sorted(registry.NOT_APPLICABLE.items()) if k not in registry.PROPS]
    m = dict(
        version=1,
        setup_cmd="./setup.sh",
        hooks=dict(guard="none", enable="no hooks: private items are reached by text extraction from /repo's working tree; /repo receives only fix: commits",
                   baseline_off_cmd="cd /repo && cargo test --workspace --no-fail-fast --offline", source_commits=[], add_only=True),
        engines=[
            dict(name="verus", path="/verif/vf", serves_properties=sorted(p for p in registry.PROPS if registry.PROPS[p].get("verus_units")),
                 kind_free_text="Verus 0.2026.09.13 on functions extracted byte-for-byte from /repo each run, contracts spliced from /verif/contracts/units/*.spec.rs, dependencies as contract shims"),
            dict(name="kani", path="/verif/kani", serves_properties=sorted(p for p in registry.PROPS if registry.PROPS[p].get("kani_units")),
                 kind_free_text="Kani 0.68/CBMC: loop-free full-domain harnesses (complete) and heap-free stub-environment units including the verbatim function text (bounded, labelled bounded)"),
        ],
        checks=checks,
        notes="See DESIGN.md. Exit codes: 0 held, 1 VIOLATION, 2 undecided (lost anchor / unsupported construct / resource limit).",
        not_applicable=na,
    )
    return m


if __name__ == "__main__":
    m = build()
    json.dump(m, open(os.path.join(VERIF, "MANIFEST.json"), "w"), indent=1)
    print("MANIFEST.json written: %d checks, %d not_applicable" % (len(m["checks"]), len(m["not_applicable"])))
