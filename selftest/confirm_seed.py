#!/usr/bin/env python3
"""Independently confirm a seeded change before keeping it:
 (a) HEAD + demo.diff : demonstration passes      (b) HEAD + patch.diff + demo.diff : demonstration fails
 (c) HEAD + patch.diff : the pinned 78 tests still pass (and it builds)
usage: confirm_seed.py <seed_dir> [...]   -- uses one scratch worktree /tmp/wt_confirm (removed at the end)
Writes <seed_dir>/confirm.json."""
import json, os, re, subprocess, sys, shlex

WT = "/tmp/wt_confirm"
ENV = dict(os.environ, CARGO_TARGET_DIR=WT + "/target", CARGO_NET_OFFLINE="true")

def sh(cmd, cwd=WT, timeout=1800):
    p = subprocess.run(cmd, shell=True, cwd=cwd, env=ENV, capture_output=True, text=True, timeout=timeout)
    return p.returncode, p.stdout + p.stderr

def reset():
    sh("git checkout -q -- . && git clean -fdq -e target")

def main():
    if not os.path.isdir(WT):
        subprocess.run(["git", "-C", "/repo", "worktree", "add", "-q", "--detach", WT, "HEAD"], check=True)
    try:
        for sd in sys.argv[1:]:
            sd = os.path.abspath(sd)
            meta = json.load(open(os.path.join(sd, "meta.json")))
            cmd = meta["demo_cmd"]
            # normalise the demo command to run inside our worktree
            cmd = re.sub(r"/tmp/seedwt_\w+", WT, cmd)
            cmd = re.sub(r"CARGO_TARGET_DIR=\S+\s*", "", cmd)
            cmd = re.sub(r"^cd .*?&&\s*", "", cmd)
            res = {"demo_cmd": cmd}
            reset()
            rc, out = sh("git apply %s" % shlex.quote(os.path.join(sd, "demo.diff")))
            res["demo_applies"] = rc == 0
            rc, out = sh(cmd)
            res["a_demo_passes_on_head"] = rc == 0
            res["a_tail"] = out[-600:]
            reset()
            rc1, o1 = sh("git apply %s" % shlex.quote(os.path.join(sd, "patch.diff")))
            rc2, o2 = sh("git apply %s" % shlex.quote(os.path.join(sd, "demo.diff")))
            res["patch_applies"] = rc1 == 0 and rc2 == 0
            rc, out = sh(cmd)
            res["b_demo_fails_with_patch"] = rc != 0
            res["b_tail"] = out[-900:]
            reset()
            sh("git apply %s" % shlex.quote(os.path.join(sd, "patch.diff")))
            rc, out = sh("cargo test --workspace --no-fail-fast --offline")
            npass = sum(int(x) for x in re.findall(r"test result: ok\. (\d+) passed", out))
            res["c_tests_pass_with_patch"] = rc == 0 and npass >= 78
            res["c_passed"] = npass
            reset()
            res["confirmed"] = bool(res["a_demo_passes_on_head"] and res["b_demo_fails_with_patch"] and res["c_tests_pass_with_patch"] and res["patch_applies"])
            json.dump(res, open(os.path.join(sd, "confirm.json"), "w"), indent=1)
            print(os.path.basename(sd), "CONFIRMED" if res["confirmed"] else "NOT CONFIRMED", {k: v for k, v in res.items() if k[0] in "abc" and not k.endswith("tail")}, flush=True)
    finally:
        subprocess.run(["git", "-C", "/repo", "worktree", "remove", "--force", WT])

if __name__ == "__main__":
    main()
