#!/usr/bin/env python3
"""Run the registered quick checks against seeded changes.
usage: run_seeded.py [--tier quick] [--only C03_1,...] [--dir /verif/seeded]
Each seeded/<id>/patch.diff is applied to a scratch worktree of /repo (outside /repo and /verif, removed afterwards),
the check of the property it breaks is run with VERIF_REPO pointing there, and the verdict is recorded in
seeded/<id>/result.json.  Expected: exit 1 with a VIOLATION line.  Evidence/replay of these runs go to a temp dir."""
import json, os, subprocess, sys, tempfile, shutil, time

VERIF = os.path.dirname(os.path.dirname(os.path.abspath(__file__)))
WT = os.environ.get("SEEDRUN_WT", "/tmp/wt_seedrun")

def main():
    args = sys.argv[1:]
    tier = "quick"; only = None; sdir = os.path.join(VERIF, "seeded")
    i = 0
    while i < len(args):
        if args[i] == "--tier": tier = args[i+1]; i += 2
        elif args[i] == "--only": only = set(args[i+1].split(",")); i += 2
        elif args[i] == "--dir": sdir = args[i+1]; i += 2
        else: i += 1
    if os.path.isdir(WT):
        subprocess.run(["git", "-C", "/repo", "worktree", "remove", "--force", WT])
    subprocess.run(["git", "-C", "/repo", "worktree", "add", "-q", "--detach", WT, "HEAD"], check=True)
    tmp = tempfile.mkdtemp(prefix="seedrun_")
    env = dict(os.environ, VERIF_REPO=WT, VERIF_EVID_DIR=os.path.join(tmp, "evidence"), VERIF_REPLAY_DIR=os.path.join(tmp, "replay"), VERIF_TIER=tier)
    summary = []
    try:
        for name in sorted(os.listdir(sdir)):
            d = os.path.join(sdir, name)
            if not os.path.isfile(os.path.join(d, "patch.diff")):
                continue
            if only and name not in only:
                continue
            meta = json.load(open(os.path.join(d, "meta.json")))
            prop = meta["property"]
            subprocess.run("git checkout -q -- . && git clean -fdq", shell=True, cwd=WT)
            r = subprocess.run(["git", "apply", os.path.join(d, "patch.diff")], cwd=WT, capture_output=True, text=True)
            if r.returncode != 0:
                # /repo moved on (later fix: commits): fall back to a 3-way merge of the seeded change
                subprocess.run("git checkout -q -- . && git clean -fdq", shell=True, cwd=WT)
                r = subprocess.run(["git", "apply", "--3way", os.path.join(d, "patch.diff")], cwd=WT, capture_output=True, text=True)
                subprocess.run("git reset -q", shell=True, cwd=WT)
            if r.returncode != 0:
                res = dict(applied=False, error=r.stderr[-300:])
            else:
                props = meta.get("also_check", []) + [prop]
                res = dict(applied=True, runs={})
                for p in dict.fromkeys(props):
                    t0 = time.time()
                    c = subprocess.run([os.path.join(VERIF, "check"), p, "--tier", tier], cwd=VERIF, env=env, capture_output=True, text=True)
                    lines = [l for l in c.stdout.splitlines() if l.startswith(("VIOLATION", "UNDECIDED", "OK", "  failed obligation"))]
                    res["runs"][p] = dict(exit=c.returncode, wall_s=round(time.time() - t0, 1), lines=lines[:12])
                res["caught"] = any(v["exit"] == 1 for v in res["runs"].values())
            json.dump(res, open(os.path.join(d, "result.json"), "w"), indent=1)
            summary.append((name, prop, res.get("caught"), {k: v["exit"] for k, v in res.get("runs", {}).items()}))
            print(name, prop, "CAUGHT" if res.get("caught") else "MISSED", {k: v["exit"] for k, v in res.get("runs", {}).items()}, flush=True)
    finally:
        subprocess.run(["git", "-C", "/repo", "worktree", "remove", "--force", WT])
        shutil.rmtree(tmp, ignore_errors=True)
    print("caught %d / %d" % (sum(1 for s in summary if s[2]), len(summary)))

if __name__ == "__main__":
    main()
