import socket, subprocess, time, sys, threading
srv = socket.socket(); srv.setsockopt(socket.SOL_SOCKET, socket.SO_REUSEADDR, 1); srv.bind(('127.0.0.1', 18082)); srv.listen(1)
p = subprocess.Popen([sys.argv[1], '-c', 'cfg.yaml'], stdout=subprocess.DEVNULL, stderr=subprocess.DEVNULL)
time.sleep(1.0)
try:
    c = socket.create_connection(('127.0.0.1', 18081))
    c.sendall(b'CONNECT 127.0.0.1:18082 HTTP/1.1\r\nHost: 127.0.0.1:18082\r\n\r\n')
    print('reply:', c.recv(200).split(b'\r\n')[0])
    t0 = time.time(); c.settimeout(8)
    try:
        d = c.recv(10)
        print('tunnel closed by proxy after %.1fs (data=%r)' % (time.time() - t0, d))
    except socket.timeout:
        print('tunnel still open after 8s although timeouts.idle = 2')
finally:
    p.kill()
