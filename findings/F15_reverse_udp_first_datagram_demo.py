import socket, subprocess, time, sys
up = socket.socket(socket.AF_INET, socket.SOCK_DGRAM); up.bind(('127.0.0.1', 18154)); up.settimeout(2.0)
p = subprocess.Popen([sys.argv[1], '-c', 'cfg.yaml'], stdout=subprocess.DEVNULL, stderr=subprocess.DEVNULL)
time.sleep(1.0)
try:
    c = socket.socket(socket.AF_INET, socket.SOCK_DGRAM)
    got = []
    for i, msg in enumerate([b'first', b'second', b'third']):
        c.sendto(msg, ('127.0.0.1', 18153))
        time.sleep(0.3)
    try:
        while True:
            d, a = up.recvfrom(100); got.append(d)
    except socket.timeout:
        pass
    print('upstream received:', got)
    print('OK' if got[:1] == [b'first'] else 'FIRST DATAGRAM OF THE SESSION WAS LOST')
finally:
    p.kill()
