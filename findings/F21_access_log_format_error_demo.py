import socket, subprocess, time, sys
srv = socket.socket(); srv.setsockopt(socket.SOL_SOCKET, socket.SO_REUSEADDR, 1); srv.bind(('127.0.0.1', 80 if False else 18280)); srv.listen(1)
p = subprocess.Popen([sys.argv[1], '-c', 'cfg.yaml'], stdout=subprocess.DEVNULL, stderr=subprocess.PIPE)
time.sleep(1.0)
print('config accepted, proxy running:', p.poll() is None)
try:
    # a request whose target port is 80: the accepted log format divides by zero when the record is written
    c = socket.create_connection(('127.0.0.1', 18281))
    c.sendall(b'CONNECT 127.0.0.1:80 HTTP/1.1\r\nHost: 127.0.0.1:80\r\n\r\n')
    try: print('reply:', c.recv(200).split(b'\r\n')[0])
    except Exception as e: print('reply error', e)
    c.close()
    time.sleep(3.0)
    rc = p.poll()
    print('proxy exit status after the request:', rc)
    if rc is not None:
        print('PROXY DIED:', p.stderr.read().decode()[-300:])
    else:
        print('proxy still alive')
finally:
    if p.poll() is None: p.kill()
