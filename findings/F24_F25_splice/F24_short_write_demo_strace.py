import socket, subprocess, time, sys, threading
N = 6 * 1024 * 1024
srv = socket.socket(); srv.setsockopt(socket.SOL_SOCKET, socket.SO_REUSEADDR, 1)
srv.setsockopt(socket.SOL_SOCKET, socket.SO_RCVBUF, 4096)
srv.bind(('127.0.0.1', 18092)); srv.listen(1)
got = {'n': 0}
def origin():
    s, _ = srv.accept()
    time.sleep(2.0)
    while True:
        d = s.recv(1500)
        if not d: break
        got['n'] += len(d)
    s.close()
t = threading.Thread(target=origin); t.start()
p = subprocess.Popen(['strace', '-f', '-e', 'trace=splice', '-o', 'strace.out', sys.argv[1], '-c', 'cfg.yaml'], stdout=subprocess.DEVNULL, stderr=subprocess.DEVNULL)
time.sleep(2.0)
try:
    c = socket.create_connection(('127.0.0.1', 18091))
    c.sendall(b'CONNECT 127.0.0.1:18092 HTTP/1.1\r\nHost: 127.0.0.1:18092\r\n\r\n')
    print('reply:', c.recv(200).split(b'\r\n')[0])
    c.sendall(bytes(N)); c.shutdown(socket.SHUT_WR)
    t.join(timeout=120)
    print('sent', N, 'received', got['n'])
finally:
    p.kill()
