# splice relay under back-pressure: a fast client sends N bytes and closes its sending side; the origin reads slowly.
# Every byte must reach the origin exactly once, in order (C01), whatever the origin's reading speed.
import socket, subprocess, time, sys, threading, hashlib
N = int(sys.argv[2]) if len(sys.argv) > 2 else 24 * 1024 * 1024
srv = socket.socket(); srv.setsockopt(socket.SOL_SOCKET, socket.SO_REUSEADDR, 1)
srv.setsockopt(socket.SOL_SOCKET, socket.SO_RCVBUF, 4096)
srv.bind(('127.0.0.1', 18092)); srv.listen(1)
got = {'n': 0, 'h': hashlib.sha256(), 'mism': None}
def origin():
    s, _ = srv.accept()
    time.sleep(2.0)                      # let the proxy run into a full socket buffer
    pos = 0
    while True:
        d = s.recv(1500)
        if not d: break
        for i, b in enumerate(d[:64]):   # spot check of the ordering pattern
            if b != ((pos + i) * 7 + (pos + i) // 251) % 256 and got['mism'] is None: got['mism'] = pos + i
        pos += len(d); got['n'] = pos
        if pos % (1 << 20) < 1500: time.sleep(0.01)
    s.close()
t = threading.Thread(target=origin); t.start()
p = subprocess.Popen([sys.argv[1], '-c', 'cfg.yaml'], stdout=subprocess.DEVNULL, stderr=subprocess.DEVNULL)
time.sleep(1.0)
try:
    c = socket.create_connection(('127.0.0.1', 18091))
    c.sendall(b'CONNECT 127.0.0.1:18092 HTTP/1.1\r\nHost: 127.0.0.1:18092\r\n\r\n')
    print('reply:', c.recv(200).split(b'\r\n')[0])
    data = bytes(((i * 7 + i // 251) % 256) for i in range(N))
    c.sendall(data)
    c.shutdown(socket.SHUT_WR)
    t.join(timeout=120)
    print('sent %d bytes, origin received %d bytes, first mismatch at %r' % (N, got['n'], got['mism']))
    sys.exit(0 if got['n'] == N and got['mism'] is None else 1)
finally:
    p.kill()
