# half-close relay: the client sends a request and ends its sending direction; the origin answers only after it has
# seen end-of-stream.  The answer must arrive (C04) -- in both I/O modes.
import socket, subprocess, time, sys, threading
srv = socket.socket(); srv.setsockopt(socket.SOL_SOCKET, socket.SO_REUSEADDR, 1)
srv.bind(('127.0.0.1', 18092)); srv.listen(1)
def origin():
    s, _ = srv.accept()
    n = 0
    while True:
        d = s.recv(1500)
        if not d: break
        n += len(d)
    s.sendall(b'got %d bytes' % n); s.close()
t = threading.Thread(target=origin, daemon=True); t.start()
p = subprocess.Popen([sys.argv[1], '-c', sys.argv[2]], stdout=subprocess.DEVNULL, stderr=subprocess.DEVNULL)
time.sleep(1.0)
try:
    c = socket.create_connection(('127.0.0.1', 18091))
    c.sendall(b'CONNECT 127.0.0.1:18092 HTTP/1.1\r\nHost: 127.0.0.1:18092\r\n\r\n')
    print('reply:', c.recv(200).split(b'\r\n')[0])
    c.sendall(b'hello'); c.shutdown(socket.SHUT_WR)
    c.settimeout(5)
    try:
        d = c.recv(100); print('origin answered:', d); ok = d == b'got 5 bytes'
    except socket.timeout:
        print('no answer within 5 s: the origin never saw the end of the client stream'); ok = False
    sys.exit(0 if ok else 1)
finally:
    p.kill()
