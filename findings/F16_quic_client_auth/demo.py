import socket, subprocess, time, sys, threading
srv = socket.socket(); srv.setsockopt(socket.SOL_SOCKET, socket.SO_REUSEADDR, 1); srv.bind(('127.0.0.1', 18482)); srv.listen(1)
def serve():
    try:
        c, _ = srv.accept(); c.sendall(b'hello-from-origin'); time.sleep(1); c.close()
    except Exception: pass
threading.Thread(target=serve, daemon=True).start()
a = subprocess.Popen([sys.argv[1], '-c', 'a.yaml'], stdout=subprocess.DEVNULL, stderr=subprocess.DEVNULL)
b = subprocess.Popen([sys.argv[1], '-c', 'b.yaml'], stdout=subprocess.DEVNULL, stderr=subprocess.DEVNULL)
time.sleep(1.5)
print('A (quic listener, client certificate REQUIRED) running:', a.poll() is None, '| B (http -> quic, presents NO client certificate) running:', b.poll() is None)
try:
    c = socket.create_connection(('127.0.0.1', 18481)); c.settimeout(5)
    c.sendall(b'CONNECT 127.0.0.1:18482 HTTP/1.1\r\nHost: 127.0.0.1:18482\r\n\r\n')
    r = c.recv(300)
    print('reply:', r.split(b'\r\n')[0])
    if b' 200 ' in r.split(b'\r\n')[0]:
        try: print('tunnel data:', c.recv(100))
        except Exception as e: print('no data', e)
        print('A PEER WITHOUT A CLIENT CERTIFICATE WAS SERVED BY A LISTENER THAT REQUIRES ONE')
    else:
        print('refused, as required')
finally:
    a.kill(); b.kill()
